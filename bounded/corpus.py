"""Corpus-driven bounded run-time contracts (labelled bounded), shared by C04 / C06 / C10 / C11 / C19.

The instance documents of the repository's own test corpus (tests/test_cases/testfiles, the lines that name an .xml file) with the schema the
test factory builds for them are the *inputs*; nothing the suite asserts about them (error counts) is used.  Every document and every single-node
mutation of it (text of a leaf, attribute dropped / added / changed, child dropped / duplicated / swapped / renamed, unknown child) is submitted to
metamorphic contracts that need no expected verdict:

  agree   (C04)  is_valid <=> no error of iter_errors; validate / strict decode raise exactly then, with the first error's class and path;
                 lax decode collects the same errors; a skip decode never raises
  lazy    (C06)  a lazy resource gives the same errors (class, path) and the same lax data as the loaded one
  repeat  (C10)  the same call on the same schema object gives the same errors again, and a freshly built schema gives them too
  locate  (C19)  every error path selects exactly one node of the document, namely error.elem
  total   (C11)  nothing but library exceptions escapes

The corpus brings feature interactions the hand-written generators lack (redefinitions, chameleon includes, XSD 1.1 assertions, open content, xsi:type
through imports, mixed content, wildcards with processContents variants, default namespaces).
"""
import copy, io, os, random, shlex
from .common import pmap, result

REPO = os.environ.get('VERIF_REPO', '/repo')
CASES_DIR = os.path.join(REPO, 'tests', 'test_cases')
MUTATIONS = ('text', 'drop_attr', 'add_attr', 'change_attr', 'drop_child', 'dup_child', 'swap', 'rename', 'unknown_child', 'drop_text')


def cases():
    out = []
    idx = os.path.join(CASES_DIR, 'testfiles')
    if not os.path.exists(idx): return feature_cases()
    buf = []
    for line in open(idx):
        line = line.split('#')[0].strip()
        if not line: continue
        if line.endswith('\\'): buf.append(line[:-1].strip()); continue
        if buf: buf.append(line); line = ' '.join(buf); buf = []
        toks = [t.strip('\'"') for t in line.split()]
        if not toks[0].endswith('.xml'): continue
        ver = '1.0'; loc = {}; defuse = 'remote'; i = 1
        while i < len(toks):
            t = toks[i]
            if t.startswith('--version'): ver = t.split('=', 1)[1] if '=' in t else toks[i + 1]; i += 0 if '=' in t else 1
            elif t == '-L': loc[toks[i + 1]] = toks[i + 2]; i += 2
            elif t.startswith('--defuse'): defuse = t.split('=', 1)[1] if '=' in t else toks[i + 1]; i += 0 if '=' in t else 1
            i += 1
        if os.path.isfile(os.path.join(CASES_DIR, toks[0])): out.append(dict(file=toks[0], ver=ver, locations=loc or None, defuse=defuse))
    return out + feature_cases()


def feature_cases():
    from . import features
    return [dict(file=f'feature:{name}#{i}', ver=ver, locations=None, defuse='remote') for name, ver, i, d in features.items()]


def case_data(case):
    if case['file'].startswith('feature:'):
        from . import features
        name, i = case['file'][8:].split('#')
        return features.FEATURES[name][2][int(i)].encode()
    return open(os.path.join(CASES_DIR, case['file']), 'rb').read()


_S = {}


def build(case, fresh=False):
    import xmlschema
    key = (case['file'].split('#')[0], case['ver'])
    if not fresh and key in _S: return _S[key]
    if case['file'].startswith('feature:'):
        from . import features
        try: s = features.build(case['file'][8:].split('#')[0], case['ver'])
        except Exception: s = None
        if not fresh: _S[key] = s
        return s
    cls = xmlschema.XMLSchema11 if case['ver'] == '1.1' else xmlschema.XMLSchema10
    f = os.path.join(CASES_DIR, case['file'])
    try:
        source, locs = xmlschema.fetch_schema_locations(f, case['locations'])
        s = cls(source, validation='lax', locations=locs, defuse=case['defuse'])
    except Exception as e:
        s = None
    if not fresh: _S[key] = s
    return s


def serialise(root, marks):
    """own serialiser for an lxml tree: the declarations of the source are kept where they are (QName values in content stay resolvable); `marks`
    maps an element to ('rebind', prefix) - its own tag is written with a fresh prefix declared on the element itself - or ('default',) - its own
    tag is written unprefixed under a default-namespace declaration on the element itself"""
    from xml.sax.saxutils import escape, quoteattr
    import lxml.etree as LE
    out = []

    def qn(tag, scope, attr=False):
        if tag[0] != '{': return tag
        uri, local = tag[1:].split('}')
        if not attr and scope.get(None) == uri: return local
        for p, u in scope.items():
            if p is not None and u == uri: return f'{p}:{local}'
        raise KeyError(uri)

    def w(e, parent_scope):
        if not isinstance(e.tag, str):
            out.append(LE.tostring(e, with_tail=False).decode()); out.append(escape(e.tail or '')); return
        own = {p: u for p, u in e.nsmap.items() if parent_scope.get(p) != u}
        m = marks.get(e); scope = dict(parent_scope); scope.update(own); name = None
        if m and e.tag[0] == '{':
            uri, local = e.tag[1:].split('}')
            if m[0] == 'rebind': own[m[1]] = uri; scope[m[1]] = uri; name = f'{m[1]}:{local}'
            elif m[0] == 'default': own[None] = uri; scope[None] = uri; name = local
        if name is None: name = qn(e.tag, scope)
        decl = ''.join(f' xmlns{":" + p if p else ""}={quoteattr(u)}' for p, u in own.items())
        attrs = ''.join(f' {qn(k, scope, True)}={quoteattr(v)}' for k, v in e.attrib.items())
        out.append(f'<{name}{decl}{attrs}>'); out.append(escape(e.text or ''))
        for c in e: w(c, scope)
        out.append(f'</{name}>'); out.append(escape(e.tail or '') if e is not root else '')
    w(root, {})
    return ''.join(out).encode()


XSI = 'http://www.w3.org/2001/XMLSchema-instance'
MUTATIONS += ('comment', 'pi', 'rebind', 'default', 'xsi_nil', 'xsi_type', 'foreign_attr')


def mutants(data, rng, n, types=()):
    """up to n single-node mutations of the document; `types` = expanded names of global types for the xsi:type mutation"""
    import lxml.etree as LE
    out = [('original', data)]
    try: root = LE.fromstring(data)
    except Exception: return out
    tries = 0
    while len(out) <= n and tries < 6 * n:
        tries += 1
        r2 = copy.deepcopy(root); ns2 = [e for e in r2.iter() if isinstance(e.tag, str)]
        k = rng.randrange(len(ns2)); t = ns2[k]; m = rng.choice(MUTATIONS); marks = {}
        if m == 'text':
            if len(t): continue
            t.text = rng.choice(['zz', '', ' 1 ', '-1', '99999999999999999999', '2000-13-01', 'true'])
        elif m == 'drop_text':
            if len(t) or not t.text: continue
            t.text = None
        elif m == 'drop_attr':
            if not t.attrib: continue
            del t.attrib[rng.choice(sorted(t.attrib))]
        elif m == 'add_attr': t.set('bogus', '1')
        elif m == 'foreign_attr': t.set('{urn:verif:foreign}bogus', '1')
        elif m == 'change_attr':
            if not t.attrib: continue
            t.set(rng.choice(sorted(t.attrib)), rng.choice(['zz', '', '-1', 'true']))
        elif m == 'drop_child':
            if not len(t): continue
            t.remove(t[rng.randrange(len(t))])
        elif m == 'dup_child':
            if not len(t): continue
            j = rng.randrange(len(t)); t.insert(j, copy.deepcopy(t[j]))
        elif m == 'swap':
            if len(t) < 2: continue
            j = rng.randrange(len(t) - 1); a = t[j]; t.remove(a); t.insert(j + 1, a)
        elif m == 'rename':
            if t is r2: continue
            q = LE.QName(t); t.tag = ('{%s}' % q.namespace if q.namespace else '') + q.localname + 'X'
        elif m == 'unknown_child': t.insert(rng.randrange(len(t) + 1), LE.Element('bogus'))
        elif m == 'comment': t.insert(rng.randrange(len(t) + 1), LE.Comment(' c '))
        elif m == 'pi': t.insert(rng.randrange(len(t) + 1), LE.ProcessingInstruction('verif', 'x'))
        elif m == 'rebind':
            if t.tag[0] != '{': continue
            marks[t] = ('rebind', 'zq')
        elif m == 'default':
            if t.tag[0] != '{' or any(isinstance(x.tag, str) and x.tag[0] != '{' for x in t.iter()): continue
            marks[t] = ('default',)
        elif m == 'xsi_nil':
            t.set('{%s}nil' % XSI, rng.choice(['true', 'true', '1', 'false']))
            if rng.random() < .6:
                for c in list(t): t.remove(c)
                t.text = None
        elif m == 'xsi_type':
            if not types: continue
            marks[t] = ('xsitype', rng.choice(types))
        try:
            if m == 'xsi_type':
                uri, local = marks.pop(t)[1]
                if uri:
                    # the prefix of the QName value has to be in scope at the node: a fresh one is declared on it through a foreign attribute's namespace
                    pfx = 'zt'; holder = LE.Element(t.tag, nsmap={pfx: uri}); holder.text = t.text; holder.tail = t.tail
                    for a, v in t.attrib.items(): holder.set(a, v)
                    for c in list(t): holder.append(c)
                    holder.set('{%s}type' % XSI, f'{pfx}:{local}')
                    if t is r2: r2 = holder
                    else: t.getparent().replace(t, holder)
                    if holder.nsmap.get(pfx) != uri: continue
                else: t.set('{%s}type' % XSI, local)
            d = serialise(r2, marks) if marks else LE.tostring(r2)
            LE.fromstring(d)
        except Exception: continue
        out.append((f'{m}@{k}', d))
    return out


def expanded(path, namespaces):
    """the steps of an error path with their prefixes resolved: the spelling depends on the declarations in scope when the path is computed"""
    if not path: return path
    ns = namespaces or {}
    out = []
    for st in path.split('/'):
        name, br, pos = st.partition('[')
        if ':' in name and not name.startswith('{'):
            p, local = name.split(':', 1); name = '{%s}%s' % (ns.get(p, p), local)
        elif name and name[0] != '{' and ns.get(''): name = '{%s}%s' % (ns[''], name)
        out.append(name + br + pos)
    return '/'.join(out)


def sig(errs): return [(type(e).__name__, expanded(e.path, e.namespaces), (e.reason or '')[:70]) for e in errs]


ROOT_LAST = 'C06-lazy-root-errors-after-chunk-errors'


def contracts(s, fresh_builder, data, workdir, which):
    """the metamorphic contracts named in `which` on one document (bytes); returns a list of (contract, observed)"""
    import xmlschema, elementpath
    from xmlschema.validators.exceptions import XMLSchemaValidationError
    from xmlschema import XMLSchemaException
    bad = []
    lib = (XMLSchemaException,)
    try:
        res = xmlschema.XMLResource(data)
    except lib: return bad                      # not well-formed / refused: nothing to compare
    except Exception as e: return [('total', f'XMLResource raised {type(e).__name__}: {e}')] if 'total' in which else bad
    try:
        errs = list(s.iter_errors(res)); E = sig(errs)
    except lib as e: return bad
    except Exception as e: return [('total', f'iter_errors raised {type(e).__name__}: {str(e)[:120]}')] if 'total' in which else bad
    if 'total' in which:
        for e in errs:
            try: str(e); repr(e); e.msg; e.path; e.get_elem_as_string() if e.elem is not None else None
            except Exception as x: bad.append(('total', f'an error object cannot be rendered: {type(x).__name__}: {str(x)[:100]}')); break
    if 'locate' in which:
        for e in errs:
            if e.path is None or e.elem is None: continue
            try: sel = elementpath.select(res.root, e.path, namespaces=e.namespaces, strict=False)
            except Exception as x: bad.append(('locate', f'path {e.path} cannot be evaluated: {type(x).__name__}: {x}')); continue
            if len(sel) != 1 or sel[0] is not e.elem: bad.append(('locate', f'path {e.path} selects {len(sel)} node(s), not exactly error.elem: {e.reason[:60] if e.reason else ""}'))
    if 'agree' in which or 'total' in which:
        try:
            v = s.is_valid(data)
            if v != (not E): bad.append(('agree', f'is_valid={v} but iter_errors gives {len(E)} errors: {E[:1]}'))
            try: s.validate(data); first = None
            except XMLSchemaValidationError as e: first = sig([e])[0]
            if (first is None) != (not E): bad.append(('agree', f'validate raised={first is not None} but iter_errors gives {len(E)} errors: {(first, E[:1])}'))
            elif first is not None and first[:2] != E[0][:2]: bad.append(('agree', f'validate raises {first[:2]} but the first error is {E[0][:2]}'))
            try: s.decode(data); ds = None
            except XMLSchemaValidationError as e: ds = sig([e])[0]
            if (ds is None) != (not E): bad.append(('agree', f'strict decode raised={ds is not None} but iter_errors gives {len(E)} errors: {(ds, E[:1])}'))
            dl = s.decode(data, validation='lax')
            if [x[:2] for x in sig(dl[1])] != [x[:2] for x in E]: bad.append(('agree', f'lax decode errors differ from iter_errors: {sig(dl[1])[:2]} vs {E[:2]}'))
            s.decode(data, validation='skip')
        except lib as e: bad.append(('agree', f'an entry point raised {type(e).__name__} where iter_errors did not: {str(e)[:100]}'))
        except Exception as e: bad.append(('total', f'{type(e).__name__}: {str(e)[:120]}'))
    if 'repeat' in which:
        try:
            E2 = sig(s.iter_errors(data))
            if E2 != E: bad.append(('repeat', f'second run differs: {E2[:2]} vs {E[:2]}'))
            if fresh_builder is not None:
                f = fresh_builder()
                if f is not None:
                    E3 = sig(f.iter_errors(data))
                    if E3 != E: bad.append(('repeat', f'a fresh schema differs: {E3[:2]} vs {E[:2]}'))
        except Exception as e: bad.append(('total', f'{type(e).__name__}: {str(e)[:120]}'))
    if 'lazy' in which or 'total' in which:
        p = os.path.join(workdir, f'c{os.getpid()}.xml'); open(p, 'wb').write(data)
        try:
            import re
            # a lazy error computes its path when it is created, with the prefixes then in scope, and keeps only the string: steps are compared by local name and position
            loc = lambda pth: re.sub(r'\{[^}]*\}|[A-Za-z_][\w.-]*:(?=[A-Za-z_])', '', pth or '')
            EE = [(x[0], loc(x[1])) for x in E]; rp = '/' + res.root.tag.split('}')[-1]
            for thin in (True, False):
                lz = xmlschema.XMLResource(p, lazy=True, thin_lazy=thin)
                lerrs = list(s.iter_errors(lz))             # the paths are read after the run: an error of a lazy resource must not depend on the stream position
                EL = [(type(e).__name__, loc(e.path)) for e in lerrs]
                if EL == EE: continue
                # the root element of a lazy resource is complete - and validated - only after its last chunk: its own errors come last
                # (and with them what the root's model group reports about its children: a blocked substitution, a child that may not be there)
                if sorted(EL) == sorted(EE): bad.append(('lazy', 'KNOWN:' + ROOT_LAST)); break
                # once the root's content model has rejected a child, what is still reported inside the rejected children and after them depends on how the run recovers: the loaded run
                # goes on with the model visitor, the lazy run looks every chunk up by its path
                # a chunk that has no element declaration at its path - a wildcard admits it - is not validated at all through a lazy resource
                wpaths = wildcard_chunk_paths(s, res, loc)
                under = lambda pth: any(pth == w or pth.startswith(w + '/') for w in wpaths)
                rest = list(EE)
                try:
                    for x in EL: rest.remove(x)
                    if wpaths and rest and all(under(x[1]) for x in rest) and [x for x in EE if not under(x[1])] == [x for x in EL if not under(x[1])]:
                        bad.append(('lazy', 'KNOWN:C06-lazy-skips-chunks-admitted-only-by-a-wildcard')); break
                except ValueError: pass
                at_root = lambda L: sorted(x for x in L if x[1] == rp)
                if any(x[0] == 'XMLSchemaChildrenValidationError' and x[1] == rp for x in EE) and at_root(EL) == at_root(EE): bad.append(('lazy', 'KNOWN:C06-lazy-recovery-after-a-root-model-error')); break
                bad.append(('lazy', f'lazy (thin={thin}) errors differ: {EL[:3]} vs {EE[:3]}')); break
        except lib as e: bad.append(('lazy', f'lazy validation raised {type(e).__name__}: {str(e)[:100]}'))
        except Exception as e: bad.append(('total', f'lazy: {type(e).__name__}: {str(e)[:120]}'))
    if 'paths' in which: bad += paths_contract(s, res, errs)
    if ('roundtrip' in which or 'keys' in which) and not E: bad += roundtrip_contract(s, res, which)
    return [b for b in bad if b[0] in which]


def shape(e): return (e.tag, tuple(sorted(e.attrib)), tuple(shape(c) for c in e if isinstance(c.tag, str)))


def roundtrip_contract(s, res, which):
    """C05 / C17 on a valid corpus document: decode, strict encode, the result is valid, has the element structure and attribute sets of the original
    (JsonML) and decodes to the same data; the keys of default-converter data resolve to the expanded names of their nodes"""
    import xmlschema
    from xmlschema import XMLSchemaException
    from .C17 import check as keys_check
    bad = []; root = res.root
    if 'roundtrip' in which:
        nsm = res.get_namespaces(root_only=False)
        bag = lambda e: sorted((x.tag, tuple(sorted(x.attrib))) for x in e.iter() if isinstance(x.tag, str))
        for name, conv in (('default', None), ('jsonml', xmlschema.JsonMLConverter), ('badgerfish', xmlschema.BadgerFishConverter), ('gdata', xmlschema.GDataConverter)):
            # what a skip wildcard matches is kept only on request, defaults are filled in unless disabled: both are documented options, set so that nothing is added or dropped
            kw = dict(process_skipped=True, use_defaults=False); kw.update(dict(converter=conv) if conv else {})
            # (a) the default namespace processing of an XML source: declarations are reported in the data and restored by the encoder
            try:
                if name == 'default' and s.decode(res, validation='lax', process_skipped=True, use_defaults=False)[1]: return bad      # not valid once the skipped content is looked at: no round trip claimed
                d = s.decode(res, **kw)
                e = s.encode(d, path=root.tag, **kw)
            except XMLSchemaException as x: bad.append(('roundtrip', f'{name}: decode / strict encode of a valid document raised {type(x).__name__}: {str(x)[:160]}')); continue
            except Exception as x: bad.append(('roundtrip', f'{name}: {type(x).__name__}: {str(x)[:120]}')); continue
            try:
                if not s.is_valid(e, namespaces=nsm): bad.append(('roundtrip', f'{name}: the encoded tree is invalid: {(list(s.iter_errors(e, namespaces=nsm))[0].reason or "")[:100]}')); continue
                if name == 'jsonml' and shape(e) != shape(root): bad.append(('roundtrip', f'{name}: element structure / attribute sets differ'))
                elif bag(e) != bag(root): bad.append(('roundtrip', f'{name}: the elements and their attribute sets differ (as a multiset)'))
                # (b) data equality, with one fixed prefix map on both sides (an encoded Element carries no declarations of its own)
                # the dict conventions cannot place character data among the children of mixed content (the property claims them for contiguous same-named children, JsonML for all)
                if name != 'jsonml' and any(len(x) and ((x.text or '').strip() or any((c.tail or '').strip() for c in x)) for x in root.iter()): continue
                d1 = s.decode(res, xmlns_processing='none', namespaces=nsm, **kw)
                e1 = s.encode(d1, path=root.tag, namespaces=nsm, **kw)
                d2 = s.decode(e1, namespaces=nsm, **kw)
                if d2 != d1: bad.append(('roundtrip', f'{name}: re-decoded data differs: {str(d1)[:80]} vs {str(d2)[:80]}'))
            except XMLSchemaException as x: bad.append(('roundtrip', f'{name}: second pass raised {type(x).__name__}: {str(x)[:160]}'))
            except Exception as x: bad.append(('roundtrip', f'{name}: {type(x).__name__}: {str(x)[:120]}'))
    if 'keys' in which:
        try:
            d = s.decode(res, process_skipped=True); kb = []
            if isinstance(d, dict): keys_check(d, root, {}, kb)
            for b in kb[:2]: bad.append(('keys', f'at {b[0]}: keys resolve to {b[1][:4]} but the children are {b[2][:4]}'))
        except XMLSchemaException: pass
        except Exception as x: bad.append(('keys', f'{type(x).__name__}: {str(x)[:120]}'))
    return bad


def wildcard_chunk_paths(s, res, loc):
    """local-name paths (as in the lazy comparison) of the children of the root that the root's content model admits through a wildcard only"""
    from xmlschema import XMLSchemaException
    governing = {}

    def hook(e, x): governing.setdefault(e, x); return False
    try: errs = list(s.iter_errors(res, validation_hook=hook))
    except XMLSchemaException: return set()
    root = res.root; rg = governing.get(root)
    if rg is None or not rg.type.is_complex() or not hasattr(rg.type.content, 'iter_elements'): return set()
    declared = [x for x in rg.type.content.iter_elements() if hasattr(x, 'iter_substitutes')]
    out = set()
    for c in root:
        if not isinstance(c.tag, str): continue
        g = governing.get(c)
        ok = g is not None and any(x is g or getattr(x, 'ref', None) is g or x.name == g.name or g.name in [m.name for m in x.iter_substitutes()] for x in declared)
        if not ok:
            same = [k for k in root if k.tag == c.tag]
            step = c.tag.split('}')[-1] + (f'[{same.index(c) + 1}]' if len(same) > 1 else '')
            out.add('/' + root.tag.split('}')[-1] + '/' + step)
    return out


XSI_TYPE = '{http://www.w3.org/2001/XMLSchema-instance}type'
IDENTITY_WORDS = ('xs:ID', 'duplicated value', 'not found for Xsd', 'IDREF', 'missing key field', 'found for Xsd')


def paths_contract(s, res, full_errs):
    """C20 on a corpus document: schema.find(path(e)) has the type of the declaration that governed e; the errors of a part selected by a
    positional path are the errors of the whole document located in that part (identity-constraint errors, which relate nodes, set aside)"""
    import xmlschema
    from xmlschema import XMLSchemaException
    bad = []
    root = res.root; parent = {c: p for p in root.iter() for c in p}
    uris = sorted({e.tag[1:].split('}')[0] for e in root.iter() if isinstance(e.tag, str) and e.tag[0] == '{'})
    pfx = {u: f'n{i}' for i, u in enumerate(uris)}; nsm = {v: k for k, v in pfx.items()}

    def step(e): return (pfx[e.tag[1:].split('}')[0]] + ':' + e.tag.split('}')[1]) if e.tag[0] == '{' else e.tag

    def path_of(e, positional):
        steps = []; x = e
        while x is not None:
            name = step(x); p = parent.get(x)
            if positional and p is not None:
                same = [c for c in p if c.tag == x.tag]
                if len(same) > 1: name += f'[{same.index(x) + 1}]'
            steps.append(name); x = p
        return '/' + '/'.join(reversed(steps))
    governing = {}

    def hook(e, x): governing.setdefault(e, x); return False
    try:
        full = list(s.iter_errors(res, validation_hook=hook))
    except XMLSchemaException: return bad
    elems = [e for e in root.iter() if isinstance(e.tag, str)]
    wild = set()
    opaque = set()                                # subtrees whose governing type is not the declared one (xsi:type, alternatives) or reached through a wildcard
    for e in elems:
        p = parent.get(e); gov = governing.get(e)
        if p in opaque or gov is None: opaque.add(e); continue
        if XSI_TYPE in e.attrib or getattr(gov, 'alternatives', None): opaque.add(e)      # e itself is still found by its path; its children are not
        if p is not None:
            pg = governing.get(p)
            declared = pg is not None and pg.type.is_complex() and any(x is gov or getattr(x, 'ref', None) is gov or x.name == gov.name or gov.name in [m.name for m in x.iter_substitutes()]
                                                                        for x in pg.type.content.iter_elements() if hasattr(x, 'iter_substitutes'))
            if not declared: opaque.add(e); wild.add(e); continue
        if p is not None and (XSI_TYPE in p.attrib or p in opaque): continue
        try: found = s.find(path_of(e, False), nsm)
        except Exception as x: bad.append(('paths', f'find({path_of(e, False)}) raised {type(x).__name__}')); continue
        if found is None: bad.append(('paths', f'find({path_of(e, False)}) is None, the node was governed by {gov!r}')); continue
        if type(found).__name__.endswith('AnyElement') and found.is_matching(e.tag): bad.append(('paths', 'KNOWN:C20-find-returns-the-wildcard-that-admits-the-name')); continue
        if found.type is not gov.type and not (found.name != gov.name and gov.name in [m.name for m in found.iter_substitutes()]):
            bad.append(('paths', f'find({path_of(e, False)}) = {found!r} of type {found.type!r}, the node was governed by {gov!r} of type {gov.type!r}'))
    ident = lambda r: any(w in (r or '') for w in IDENTITY_WORDS)
    import re
    # names inside a reason are spelled with the prefixes of the namespace map in use (the document's for the whole run, this harness's for the part)
    norm = lambda e: (type(e).__name__, re.sub(r"(\{[^}]*\}|\b[A-Za-z_][\w.-]*:(?=[A-Za-z_]))", '', e.reason or ''))
    for e in elems[1:40]:
        if e in opaque and parent.get(e) in opaque: continue
        depth = 0; x = e
        while parent.get(x) is not None: x = parent[x]; depth += 1
        if depth > 2: continue
        p = path_of(e, True); sub = set(e.iter())
        # a part below an element whose content model was rejected: what is reported inside depends on the recovery of the whole-document run (not judged)
        anc = set(); x = parent.get(e)
        while x is not None: anc.add(x); x = parent.get(x)
        if any(type(er).__name__ == 'XMLSchemaChildrenValidationError' and er.elem in anc for er in full): continue
        try: perrs = sorted(norm(x) for x in s.iter_errors(res, path=p, namespaces=nsm) if not ident(x.reason))
        except XMLSchemaException as x: bad.append(('paths', f'iter_errors(path={p}) raised {type(x).__name__}: {str(x)[:80]}')); continue
        except Exception as x: bad.append(('paths', f'iter_errors(path={p}) raised {type(x).__name__}')); continue
        want = sorted(norm(x) for x in full if x.elem in sub and not ident(x.reason))
        if perrs != want:
            strip = lambda L: [r for r in L if 'unmapped prefix' not in r[1] and 'QName' not in r[1]]
            head = lambda L: [r for r in L if not (r[1].startswith('substitution of') or 'is blocked by head element' in r[1])]
            if depth >= 2 and strip(perrs) == strip(want): bad.append(('paths', 'KNOWN:C20-partial-validation-ignores-intermediate-xmlns'))
            elif head(perrs) == head(want) and perrs == head(perrs): bad.append(('paths', 'KNOWN:C20-partial-validation-loses-the-head-of-a-substitution'))
            elif e in wild and not perrs: bad.append(('paths', 'KNOWN:C20-partial-validation-skips-elements-admitted-only-by-a-wildcard'))
            else: bad.append(('paths', f'errors of the part {p}: {perrs[:2]} but the whole document has {want[:2]} there'))
    return bad


def eval_case(args):
    case, n, seed, workdir, fresh_every, which = args
    s = build(case)
    if s is None or s.all_errors: return dict(case=case, skipped='schema not built' if s is None else 'schema with errors', cases=0, bad=[])
    data = case_data(case)
    rng = random.Random(f"{seed}:{case['file']}:{case['ver']}")
    bad = []; cnt = 0
    types = sorted((t.name[1:].split('}') if t.name[0] == '{' else ['', t.name]) for t in s.maps.types.values() if t.name and not t.name.startswith('{http://www.w3.org/2001/XMLSchema}'))[:40]
    for i, (tag, d) in enumerate(mutants(data, rng, n, [tuple(x) for x in types])):
        fb = (lambda: build(case, fresh=True)) if ('repeat' in which and i % fresh_every == 0) else None
        cnt += 1
        for c, obs in contracts(s, fb, d, workdir, which):
            bad.append(dict(contract=c, mutation=tag, observed=obs, doc=d.decode('utf-8', 'replace')))
    return dict(case=case, cases=cnt, bad=bad)


FAMILY = {'C04': ('agree', 'entry points and modes agree on corpus documents and their single-node mutations'),
          'C06': ('lazy', 'lazy validation gives the errors of the loaded document (class, path, order) on corpus documents and their mutations'),
          'C10': ('repeat', 'a second run and a freshly built schema give the same errors on corpus documents and their mutations'),
          'C11': ('total', 'only library exceptions escape validation, decoding and lazy validation of mutated corpus documents'),
          'C20': ('paths', 'schema.find(path(e)) has the type of the governing declaration; the errors of a part selected by a positional path are the errors of the whole document located in it'),
          'C05': ('roundtrip', 'a valid corpus document (or valid mutation) decodes, encodes in strict mode to a valid tree with the same structure (JsonML) and decodes to the same data again'),
          'C17': ('keys', 'the keys of the data decoded from a valid corpus document resolve, with the declarations the data reports, to the expanded names of the nodes'),
          'C07': ('lazy', 'a lazy resource (the members at the streaming depth, the head known only to the root pass) gives the errors of the loaded document on the substitution / alternative / nillable feature documents',
                  ('feature:substitution', 'feature:alternatives', 'feature:nillable')),
          'C19': ('locate', 'every error path of a mutated corpus document selects exactly error.elem')}


def family(prop, tier, seed, open_findings):
    """result record `<prop>.corpus_<contract>` for the bounded part of a property check"""
    import shutil, tempfile
    which, text = FAMILY[prop][:2]
    cs = cases(); n = 120 if tier == 'thorough' else 10
    if len(FAMILY[prop]) > 2: cs = [c for c in cs if c['file'].startswith(FAMILY[prop][2])]; n *= 3
    workdir = tempfile.mkdtemp(prefix='verif-corpus-')
    try: res = pmap(eval_case, [(c, n, seed, workdir, 8, (which,)) for c in cs], chunk=1)
    finally: shutil.rmtree(workdir, ignore_errors=True)
    fails = []; known = {}
    for r in res:
        for b in r['bad']:
            if b['observed'].startswith('KNOWN:'):
                k = b['observed'][6:]
                if not k.startswith(prop + '-'): continue          # a difference classified under another property's listed finding: judged by that property's check
                if k in open_findings: known[k] = known.get(k, 0) + 1; continue
                b = dict(b, observed='root-located errors are yielded after the errors of the chunks (finding no longer listed)')
            fails.append(dict(case=dict(file=r['case']['file'], ver=r['case']['ver'], locations=r['case']['locations'], defuse=r['case']['defuse'], doc=b['doc'], mutation=b['mutation']),
                              observed=b['observed'], required=text))
    total = sum(r['cases'] for r in res)
    skipped = [f"{r['case']['file']} ({r['skipped']})" for r in res if r.get('skipped')]
    name = f'{prop}.corpus_{which}'
    return result(name, f'{len(cs) - len(skipped)} documents (the instance documents of tests/test_cases and the documents of bounded/features.py) x (original + {n} seeded single-node mutations); {text}', total, fails[:40], known=known,
                  samples=[dict(file=cs[0]['file'], mutation='original')] if cs else [], distinct=total, notes=('skipped: ' + '; '.join(skipped)) if skipped else None)


def replay(prop, case):
    import shutil, tempfile
    which, text = FAMILY[prop][:2]
    c = dict(file=case['file'], ver=case['ver'], locations=case.get('locations'), defuse=case.get('defuse', 'remote'))
    s = build(c)
    if s is None: return dict(ok=True, observed='schema not built', required=text)
    workdir = tempfile.mkdtemp(prefix='verif-corpus-')
    try: bad = contracts(s, lambda: build(c, fresh=True), case['doc'].encode(), workdir, (which,))
    finally: shutil.rmtree(workdir, ignore_errors=True)
    return dict(ok=not bad, observed=[b[1] for b in bad][:2], required=text)
