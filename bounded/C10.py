"""C10 bounded run-time contract (labelled bounded): results never depend on what the schema object processed before.

Seeded call histories (is_valid, iter_errors, lax/strict decode, validate, lazy run, to_objects, a validation hook that stops the run,
encode) over a pool of documents exercising xsi:type, a key whose selector reaches extension-only children, ID/IDREF, a fixed value, a
lax wildcard, an element reference selected by the key and used with another effective type, and malformed input; every step's result equals the result of the same call on a fresh schema.
"""
import random
from .common import pmap, result
from .C01 import _cls
XS = 'xmlns:xs="http://www.w3.org/2001/XMLSchema"'
XSI = 'xmlns:xsi="http://www.w3.org/2001/XMLSchema-instance"'
SCHEMA = f'''<xs:schema {XS}>
 <xs:complexType name="B"><xs:sequence><xs:element name="a" type="xs:string"/></xs:sequence><xs:attribute name="k" type="xs:int"/></xs:complexType>
 <xs:complexType name="E1"><xs:complexContent><xs:extension base="B"><xs:sequence><xs:element name="sub" minOccurs="0" maxOccurs="unbounded"><xs:complexType><xs:attribute name="k" type="xs:int"/></xs:complexType></xs:element></xs:sequence></xs:extension></xs:complexContent></xs:complexType>
 <xs:element name="r"><xs:complexType><xs:sequence>
   <xs:element name="item" type="B" maxOccurs="unbounded"/>
   <xs:element ref="gitem" minOccurs="0" maxOccurs="unbounded"/>
   <xs:element name="sa" minOccurs="0" maxOccurs="unbounded"><xs:complexType><xs:anyAttribute namespace="##other" processContents="strict"/></xs:complexType></xs:element>
   <xs:element name="la" minOccurs="0" maxOccurs="unbounded"><xs:complexType><xs:anyAttribute namespace="##other" processContents="lax"/></xs:complexType></xs:element>
   <xs:element name="bitem" type="B" block="extension" minOccurs="0" maxOccurs="unbounded"/>
   <xs:element name="fix" type="xs:decimal" fixed="1.0" minOccurs="0"/>
   <xs:element name="u" minOccurs="0" maxOccurs="unbounded"><xs:simpleType><xs:union memberTypes="xs:int xs:string"/></xs:simpleType></xs:element>
   <xs:any namespace="##other" processContents="lax" minOccurs="0"/>
  </xs:sequence><xs:attribute name="id" type="xs:ID"/><xs:attribute name="ref" type="xs:IDREF"/></xs:complexType>
  <xs:unique name="US"><xs:selector xpath=". | item | gitem"/><xs:field xpath="@id"/></xs:unique>
  <xs:unique name="UU"><xs:selector xpath="u"/><xs:field xpath="."/></xs:unique><xs:key name="K"><xs:selector xpath="item|item/sub|gitem|gitem/sub"/><xs:field xpath="@k"/></xs:key>
 </xs:element>
 <xs:element name="gitem" type="B"/></xs:schema>'''
# XSD 1.1 only: a key on one element and a REFERENCE to it (xs:key ref=) on another; the selector reaches declarations that exist only in a derived type used through xsi:type
SCHEMA11_EXTRA = '''<xs:complexType name="Slot"><xs:sequence><xs:element name="n" type="xs:string" minOccurs="0"/></xs:sequence></xs:complexType>
 <xs:complexType name="SlotX"><xs:complexContent><xs:extension base="Slot"><xs:sequence><xs:element name="code" type="xs:string" maxOccurs="unbounded"/></xs:sequence></xs:extension></xs:complexContent></xs:complexType>
 <xs:element name="north"><xs:complexType><xs:sequence><xs:element name="nslot" type="Slot" maxOccurs="unbounded"/></xs:sequence></xs:complexType><xs:key name="codeKey"><xs:selector xpath=".//code"/><xs:field xpath="."/></xs:key></xs:element>
 <xs:element name="south"><xs:complexType><xs:sequence><xs:element name="sslot" type="Slot" maxOccurs="unbounded"/></xs:sequence></xs:complexType><xs:key ref="codeKey"/></xs:element>'''


def schema_text(ver):
    return SCHEMA.replace('<xs:element name="gitem" type="B"/></xs:schema>', '<xs:element name="gitem" type="B"/>' + SCHEMA11_EXTRA + '</xs:schema>') if ver == '1.1' else SCHEMA


DOCS = [
    f'<r {XSI}><item k="1"><a>x</a></item><item k="2"><a>y</a></item></r>',
    f'<r {XSI}><item k="1"><a>x</a></item><item k="1"><a>y</a></item></r>',
    f'<r {XSI}><item k="1" xsi:type="E1"><a>x</a><sub k="1"/></item></r>',
    f'<r {XSI}><item k="1" xsi:type="E1"><a>x</a><sub k="2"/></item><item k="2"><a>y</a></item></r>',
    f'<r {XSI}><item k="1"><a>x</a></item><fix>1.00</fix></r>', f'<r {XSI}><item k="1"><a>x</a></item><fix>2</fix></r>',
    f'<r {XSI} id="i1" ref="i1"><item k="1"><a>x</a></item></r>', f'<r {XSI} id="i1" ref="zz"><item k="1"><a>x</a></item></r>',
    f'<r {XSI}><item k="q"><a>x</a></item></r>', f'<r {XSI}><item k="1"><a>x</a></item><o:x xmlns:o="urn:o"/></r>', '<r><bogus/></r>', '<r><item k="1"><a>x</a>',
    f'<r {XSI}><item k="3" xsi:type="Nope"><a>x</a></item></r>',
    f'<r {XSI} xmlns:xs="http://www.w3.org/2001/XMLSchema"><item k="1"><a>x</a></item><fix xsi:type="xs:integer">1</fix></r>',      # a fixed value seen first through another effective type
    f'<r {XSI}><item k="1"><a>x</a></item><fix>1.000</fix></r>',
    # an element REFERENCE selected by the key, seen with another effective type; later the global declaration is used directly
    f'<r {XSI}><item k="1"><a>x</a></item><gitem k="5" xsi:type="E1"><a>x</a><sub k="6"/></gitem></r>',
    f'<r {XSI}><item k="1"><a>x</a></item><gitem k="5"><a>x</a></gitem><gitem k="5"><a>y</a></gitem></r>',
    '<gitem k="1"><a>x</a></gitem>', '<gitem k="1"><a>x</a><sub k="2"/></gitem>',
    # a blocked xsi:type (an error every time, not only the first time the type is met on that declaration)
    f'<r {XSI}><item k="1"><a>x</a></item><bitem k="8" xsi:type="E1"><a>x</a></bitem></r>', f'<r {XSI}><item k="1"><a>x</a></item><bitem k="8" xsi:type="E1"><a>x</a></bitem><bitem k="9" xsi:type="E1"><a>y</a></bitem></r>',
    # attributes matched by a wildcard whose namespace is loaded on demand (XLink has a bundled fallback location): strict and lax, valid and invalid values
    f'<r {XSI} xmlns:xlink="http://www.w3.org/1999/xlink"><item k="1"><a>x</a></item><sa xlink:type="simple"/></r>', f'<r {XSI} xmlns:xlink="http://www.w3.org/1999/xlink"><item k="1"><a>x</a></item><la xlink:show="sideways"/></r>',
    f'<r {XSI} xmlns:xlink="http://www.w3.org/1999/xlink"><item k="1"><a>x</a></item><sa xlink:type="bogus"/><la xlink:type="simple"/></r>',
    # an xsi:type met AFTER the on-demand load of a namespace in the same run (the load rebuilds the components the run is using)
    f'<r {XSI} xmlns:xlink="http://www.w3.org/1999/xlink"><item k="1"><a>x</a></item><sa xlink:type="simple"/><bitem k="3" xsi:type="B"><a>x</a></bitem></r>',
    # a union with lexically overlapping members: which member decodes a value must not depend on what was decoded before
    f'<north {XSI}><nslot xsi:type="SlotX"><code>A</code></nslot></north>', f'<south {XSI}><sslot xsi:type="SlotX"><code>A</code><code>A</code></sslot></south>',
    f'<south {XSI}><sslot xsi:type="SlotX"><code>A</code></sslot></south>', f'<north {XSI}><nslot xsi:type="SlotX"><code>A</code><code>A</code></nslot></north>',
    f'<r {XSI}><item k="1"><a>x</a></item><u>alpha</u><u>n/a</u></r>', f'<r {XSI}><item k="1"><a>x</a></item><u>1</u><u>01</u></r>', f'<r {XSI}><item k="1"><a>x</a></item><u>7</u></r>',
]
MIDRUN = [i for i, d in enumerate(DOCS) if 'bitem k="3" xsi:type="B"' in d][0]
OPS = ['is_valid', 'iter_errors', 'decode_lax', 'decode_strict', 'validate', 'lazy', 'to_objects', 'stop', 'encode']


def call(s, op, doc):
    import xmlschema
    from xmlschema.validators.exceptions import XMLSchemaValidationError
    try:
        if op == 'is_valid': return ('v', s.is_valid(doc))
        if op == 'iter_errors': return ('e', [e.reason for e in s.iter_errors(doc)])
        if op == 'decode_lax': d, errs = s.decode(doc, validation='lax'); return ('d', repr(d), [e.reason for e in errs])
        if op == 'decode_strict': return ('ds', repr(s.decode(doc)))
        if op == 'validate': s.validate(doc); return ('ok',)
        if op == 'lazy': return ('lz', [e.reason for e in s.iter_errors(xmlschema.XMLResource(doc, lazy=1))])
        if op == 'to_objects': return ('o', repr(s.to_objects(doc, validation='lax')[1]))
        if op == 'encode':
            d = s.decode(doc, validation='skip'); e = s.encode(d, validation='lax')
            return ('en', [x.reason for x in e[1]])
        if op == 'stop':
            n = [0]

            def hook(e, x):
                n[0] += 1
                if n[0] == 2: raise xmlschema.XMLSchemaStopValidation()
                return False
            return ('st', [e.reason for e in s.iter_errors(doc, validation_hook=hook)])
    except XMLSchemaValidationError as e: return ('raised', e.reason)
    except xmlschema.XMLSchemaException as e: return ('libexc', type(e).__name__)
    except Exception as e: return ('OTHER', type(e).__name__, str(e)[:60])


def eval_history(args):
    ver, hist = args
    s = _cls(ver)(schema_text(ver)); known = False
    for step, (op, i) in enumerate(hist):
        got = call(s, op, DOCS[i]); exp = call(_cls(ver)(schema_text(ver)), op, DOCS[i])
        if got != exp:
            if i == MIDRUN and 'cannot substitute' not in repr(got):         # the document dedicated to the listed finding, whatever the operation
                known = True; continue        # the FRESH schema shows the spurious error (listed finding); a used one does not
            return dict(ver=ver, history=hist[:step + 1], got=got, fresh=exp)
    return dict(known=True) if known else None


XT_SCHEMA = '''<xs:schema xmlns:xs="http://www.w3.org/2001/XMLSchema">
  <xs:complexType name="base"><xs:sequence><xs:element name="k" type="xs:string"/></xs:sequence></xs:complexType>
  <xs:complexType name="ext"><xs:complexContent><xs:extension base="base"><xs:sequence><xs:element name="x" type="xs:int" maxOccurs="unbounded"/></xs:sequence></xs:extension></xs:complexContent></xs:complexType>
  <xs:element name="item" type="base"/>
  <xs:element name="root"><xs:complexType><xs:sequence>
      <xs:element name="a" minOccurs="0"><xs:complexType><xs:sequence><xs:element ref="item" maxOccurs="unbounded"/></xs:sequence></xs:complexType>
         <xs:unique name="k1"><xs:selector xpath=".//x"/><xs:field xpath="."/></xs:unique></xs:element>
      <xs:element name="b" minOccurs="0"><xs:complexType><xs:sequence><xs:element ref="item" maxOccurs="unbounded"/></xs:sequence></xs:complexType>
         <xs:unique name="k2"><xs:selector xpath=".//x"/><xs:field xpath="."/></xs:unique></xs:element>
  </xs:sequence></xs:complexType><xs:key name="k0"><xs:selector xpath="a/item|b/item"/><xs:field xpath="k"/></xs:key></xs:element></xs:schema>'''
_XSI = 'xmlns:xsi="http://www.w3.org/2001/XMLSchema-instance"'
XT_DOCS = [f'<root {_XSI}><a><item xsi:type="ext"><k>a</k><x>1</x><x>2</x></item></a></root>', f'<root {_XSI}><b><item xsi:type="ext"><k>a</k><x>1</x><x>1</x></item></b></root>',
           f'<root {_XSI}><a><item xsi:type="ext"><k>a</k><x>1</x><x>1</x></item></a><b><item><k>a</k></item></b></root>', '<item><k>a</k></item>', '<k>a</k>', '<x>1</x>',
           f'<item {_XSI} xsi:type="ext"><k>a</k><x>7</x></item>', f'<root {_XSI}><b><item xsi:type="nope"><k>a</k></item></b></root>']


# a local declaration beside a lax wildcard that resolves to a same-named global of another type: the consistency of a wildcard-matched child depends on the model it sits in,
# not on what the declaration met in earlier documents
XT2_SCHEMA = '''<xs:schema xmlns:xs="http://www.w3.org/2001/XMLSchema">
  <xs:complexType name="G"><xs:sequence><xs:element name="v" type="xs:string"/></xs:sequence></xs:complexType>
  <xs:complexType name="Gd"><xs:complexContent><xs:extension base="G"><xs:sequence><xs:element name="w" type="xs:string" minOccurs="0"/></xs:sequence></xs:extension></xs:complexContent></xs:complexType>
  <xs:element name="g" type="G"/>
  <xs:element name="root"><xs:complexType><xs:sequence><xs:element name="g" type="xs:string"/><xs:any processContents="lax" minOccurs="0" maxOccurs="unbounded"/></xs:sequence></xs:complexType></xs:element>
  <xs:element name="free"><xs:complexType><xs:sequence><xs:any processContents="lax" minOccurs="0" maxOccurs="unbounded"/></xs:sequence></xs:complexType></xs:element></xs:schema>'''
XT2_DOCS = [f'<g {_XSI} xsi:type="G"><v>a</v></g>', f'<g {_XSI} xsi:type="Gd"><v>a</v><w>b</w></g>', '<root><g>text</g><g><v>a</v></g></root>', f'<root {_XSI}><g>text</g><g xsi:type="Gd"><v>a</v><w>b</w></g></root>',
            f'<free {_XSI}><g xsi:type="Gd"><v>a</v></g><g><v>a</v></g></free>', '<root><g>text</g></root>', f'<root {_XSI}><g>text</g><g xsi:type="xs:string" xmlns:xs="http://www.w3.org/2001/XMLSchema">t</g></root>']


def eval_xsi_histories(ver, schema_text_=None, docs_=None):
    """xsi:type on a shared global declaration met under one identity scope, then under another; documents whose root is named like a local element of a type that was reached
    through xsi:type: every document gets, after every other one on the same schema object, the outcome a fresh schema gives it"""
    import xmlschema
    def outcome(s, d):
        out = {}
        for name, f in (('iter_errors', lambda: [e.reason for e in s.iter_errors(d)]), ('is_valid', lambda: s.is_valid(d)), ('decode', lambda: (repr(s.decode(d, validation='lax')[0]), len(s.decode(d, validation='lax')[1])))):
            try: out[name] = f()
            except Exception as e: out[name] = f'{type(e).__name__}'
        return out
    XS_, DOCS_ = schema_text_ or XT_SCHEMA, docs_ or XT_DOCS
    if schema_text_ is None:
        n2, bad2 = eval_xsi_histories(ver, XT2_SCHEMA, XT2_DOCS)
    else: n2, bad2 = 0, []
    fresh = [outcome(_cls(ver)(XS_), d) for d in DOCS_]; bad = list(bad2); n = n2
    for i, d1 in enumerate(DOCS_):
        for j, d2 in enumerate(DOCS_):
            n += 1
            s = _cls(ver)(XS_); outcome(s, d1); got = outcome(s, d2)
            if got != fresh[j]: bad.append(dict(ver=ver, first=d1, then=d2, got={k: v for k, v in got.items() if v != fresh[j][k]}, fresh={k: v for k, v in fresh[j].items() if v != got[k]}))
    return n, bad


def run(tier, seed, open_findings):
    rng = random.Random(seed); n = 4000 if tier == 'thorough' else 80
    hists = [[(rng.choice(OPS), rng.randrange(len(DOCS))) for _ in range(6)] for _ in range(n)]
    jobs = [(ver, h) for h in hists for ver in ('1.0', '1.1')]
    res = pmap(eval_history, jobs, chunk=2)
    K = 'C10-on-demand-namespace-load-rebuilds-the-components-in-use'
    nk = sum(1 for r in res if r and r.get('known'))
    fails = [dict(case=dict(ver=r['ver'], history=r['history']), observed=dict(got=r['got'], fresh=r['fresh']), required='result equals the fresh-schema result') for r in res if r and not r.get('known')]
    if nk and K not in open_findings:
        fails.append(dict(case=dict(ver='1.0', history=[['iter_errors', MIDRUN]]), observed='a fresh schema reports a spurious substitution error after a mid-run namespace load, a used one does not', required='result equals the fresh-schema result'))
    xr = pmap(eval_xsi_histories, ['1.0', '1.1'], chunk=1); xf = [dict(case=b, observed=dict(got=b['got'], fresh=b['fresh']), required='result equals the fresh-schema result') for _, bb in xr for b in bb]
    return [result('C10.xsi_type_histories', f'{len(XT_DOCS)} x {len(XT_DOCS)} + {len(XT2_DOCS)} x {len(XT2_DOCS)} ordered pairs of documents (xsi:type under two identity scopes, roots named like local elements; a local declaration beside a wildcard that resolves to a same-named global) x 3 operations x 2 classes', sum(n for n, _ in xr) * 3, xf,
                   samples=[dict(first=XT_DOCS[0], then=XT_DOCS[1])], distinct=sum(n for n, _ in xr)),
            result('C10.call_histories', f'{len(hists)} seeded histories of 6 calls over {len(OPS)} operations x {len(DOCS)} documents x 2 classes', len(jobs) * 6, fails, known=({K: nk} if nk and K in open_findings else {}),
                   samples=[dict(history=hists[0][:3])], distinct=len(jobs))]


def replay(check_name, case):
    if check_name == 'C10.xsi_type_histories':
        bad = [b for b in eval_xsi_histories(case['ver'])[1] if b['first'] == case['first'] and b['then'] == case['then']]
        return dict(ok=not bad, observed=bad[:1], required='result equals the fresh-schema result')
    r = eval_history((case['ver'], [(op, MIDRUN if i == 'MIDRUN' else i) for op, i in case['history']]))
    return dict(ok=r is None, observed=r, required='result equals the fresh-schema result')
