"""C14 bounded run-time contract on the real schema builder (labelled bounded):

    a schema deriving D from B by restriction is accepted  =>  L(D) subset of L(B)  (decided on all words up to length 5)

Bases: every 12th deterministic two-level model of cm.two_level_models() (fixed order) that the builder accepts; candidates:
systematic edits of the base (tightened and widened occurrences, dropped and added particles, chosen branches).  Both classes.
Also facet pairs (base, derived) over boundary values and attribute use / wildcard pairs through real schemas.
"""
import itertools
from . import cm
from .common import pmap, result, part, load_instances
from .C01 import _cls, _tuplify

WORDS = cm.words('ab', 5)


def edits(m):
    if m[0] in ('seq', 'cho', 'all') and m[1]:
        # another compositor over the same particles, or over one of them (a one-branch choice restricting a sequence, a sequence restricting an all group, ...)
        for k in ('seq', 'cho'):
            if k != m[0]:
                yield (k, m[1], m[2])
                for c in m[1][:2]: yield (k, [c], m[2])
    for o in cm.OCC:
        if o != tuple(m[2]): yield (m[0], m[1], o)
    if m[0] not in ('e', 'w'):
        kids = m[1]
        for i, c in enumerate(kids):
            for c2 in edits(c): yield (m[0], kids[:i] + [c2] + kids[i + 1:], m[2])
            if len(kids) > 1: yield (m[0], kids[:i] + kids[i + 1:], m[2])
        if m[0] == 'cho':
            for c in kids: yield ('seq', [c], m[2])
        yield (m[0], kids + [('e', 'a', (0, 1))], m[2])


def schema_text(base, der):
    return f'''<xs:schema {cm.XS}>
 <xs:complexType name="B">{cm.xsd(base)}</xs:complexType>
 <xs:complexType name="D"><xs:complexContent><xs:restriction base="B">{cm.xsd(der)}</xs:restriction></xs:complexContent></xs:complexType>
 <xs:element name="b" type="B"/><xs:element name="d" type="D"/></xs:schema>'''


def evaluate(args):
    base, ver = args
    import xmlschema
    out = dict(base=cm.show(base), version=ver, pairs=0, accepted=0, widening=[])
    if not cm.upa_ok(base, '1.0'): return out
    try: _cls(ver)(f'<xs:schema {cm.XS}><xs:complexType name="B">{cm.xsd(base)}</xs:complexType></xs:schema>')
    except xmlschema.XMLSchemaException: return out
    LB = {w for w in WORDS if cm.in_language(base, w)}
    for der in itertools.islice(edits(base), 46):
        out['pairs'] += 1
        try: s = _cls(ver)(schema_text(base, der))
        except xmlschema.XMLSchemaException: continue
        out['accepted'] += 1
        bad = [w for w in WORDS if w not in LB and cm.in_language(der, w)]
        if bad:
            # confirm through the validator itself: the derived type accepts a child sequence the base type rejects
            w = bad[0]
            vd, vb = s.is_valid(cm.doc(w, 'd')), s.is_valid(cm.doc(w, 'b'))
            if vd and not vb: out['widening'].append(dict(derived=cm.show(der), der_model=der, word=w))
            elif not (cm.upa_ok(der, '1.0')): pass       # ambiguous derived model: validator verdict unreliable (C15/C01 territory)
            else: out['widening'].append(dict(derived=cm.show(der), der_model=der, word=w, note=f'oracle only: validator derived={vd} base={vb}'))
    return out


def eval_redefine(args):
    """a named group redefined without a self-reference is a restriction of the group it redefines (Structures 4.2.3, src-redefine 6.2.2); the rule holds for every level of
    a chain of redefinitions, also below a level that extends the group by referring to itself"""
    base, ver = args
    import xmlschema, tempfile, shutil, os
    out = dict(base=cm.show(base), version=ver, pairs=0, accepted=0, widening=[])
    # the content of a named group is one compositor without occurrence attributes: bases and candidates of that shape only (the same pairs as for type restrictions)
    plain = lambda m: m[0] in ('seq', 'cho') and tuple(m[2]) == (1, 1)
    if not cm.upa_ok(base, '1.0') or not plain(base): return out
    d = tempfile.mkdtemp(prefix='verif_c14_')
    try:
        def w(name, text): open(os.path.join(d, name), 'w').write(text)
        grp = lambda m: '<xs:group name="g">' + cm.xsd(m).replace(' minOccurs="1" maxOccurs="1"', '', 1) + '</xs:group>'
        w('a.xsd', f'<xs:schema {cm.XS}>{grp(base)}<xs:element name="b"><xs:complexType><xs:group ref="g"/></xs:complexType></xs:element></xs:schema>')
        _cls(ver)(os.path.join(d, 'a.xsd'))       # a deterministic plain compositor: a refusal here is a fault of this harness, not a verdict
        LB = {x for x in WORDS if cm.in_language(base, x)}
        w('c.xsd', f'<xs:schema {cm.XS}><xs:redefine schemaLocation="b.xsd"><xs:group name="g"><xs:sequence><xs:group ref="g"/><xs:element name="c" minOccurs="0"/></xs:sequence></xs:group></xs:redefine></xs:schema>')
        for der in itertools.islice(edits(base), 46):
            bad = [x for x in WORDS if x not in LB and cm.in_language(der, x)]
            if not bad or not plain(der): continue          # a true restriction: nothing to refute (acceptance of true restrictions is not part of the clause)
            w('b.xsd', f'<xs:schema {cm.XS}><xs:redefine schemaLocation="a.xsd">{grp(der)}</xs:redefine></xs:schema>')
            for top in ('b.xsd', 'c.xsd'):
                out['pairs'] += 1
                try: s = _cls(ver)(os.path.join(d, top))
                except xmlschema.XMLSchemaException: continue
                out['accepted'] += 1
                vd = s.is_valid(cm.doc(bad[0], 'b'))
                if vd or cm.upa_ok(der, '1.0'): out['widening'].append(dict(derived=cm.show(der), der_model=der, word=bad[0], top=top))
    finally: shutil.rmtree(d, ignore_errors=True)
    return out


def eval_seq_over_choice(ver):
    """a sequence over SOME branches of a three-branch choice as its restriction (the branch left out carries the largest bound, or the smallest): every accepted pair is checked
    for language inclusion, through the validator itself"""
    import xmlschema
    n = 0; wid = []
    for occs in itertools.product([(1, 1), (0, 1), (0, 5), (1, None), (2, 2)], repeat=3):
        for go in ((1, 1), (1, 2), (0, None)):
            base = ('cho', [('e', 'a', occs[0]), ('e', 'b', occs[1]), ('e', 'c', occs[2])], go)
            if not cm.upa_ok(base, '1.0'): continue
            LB = {w for w in WORDS if cm.in_language(base, w)}
            for pick in (('a', 'b'), ('b', 'c'), ('a', 'c'), ('b', 'a')):
                for po in ((1, 1), (0, 1)):
                    der = ('seq', [('e', p_, po) for p_ in pick], (1, 1)); n += 1
                    try: s = _cls(ver)(schema_text(base, der))
                    except xmlschema.XMLSchemaException: continue
                    bad = [w for w in WORDS if w not in LB and cm.in_language(der, w)]
                    if bad and s.is_valid(cm.doc(bad[0], 'd')) and not s.is_valid(cm.doc(bad[0], 'b')):
                        wid.append(dict(key=f'seqcho:{ver}|{cm.show(base)}|{cm.show(der)}', base=base, der_model=der, word=bad[0]))
    return n, wid


def run(tier, seed, open_findings):
    bases = [m for i, m in enumerate(cm.two_level_models()) if i % 12 == 0]
    sel, exhaustive = part(bases, tier, seed, 5)
    jobs = [(m, ver) for m in sel for ver in ('1.0', '1.1')]
    res = pmap(evaluate, jobs)
    known = load_instances('C14_instances.json')
    failures = []; pairs = acc = nk = 0
    for r, (m, ver) in zip(res, jobs):
        pairs += r['pairs']; acc += r['accepted']
        for w in r['widening']:
            key = f"{ver}|{r['base']}|{w['derived']}"
            if key in known and 'C14-model-restriction-widens' in open_findings: nk += 1; continue
            failures.append(dict(case=dict(base=m, derived=w['der_model'], version=ver), observed=f"restriction {w['derived']} of {r['base']} accepted although it admits {w['word']!r}",
                                 required='accepted restriction => L(derived) subset of L(base)', note=w.get('note')))
    out = [result('C14.model_restrictions', f'{len(sel)} of {len(bases)} base models x <=40 candidate restrictions x 2 classes, words <= 5', pairs, failures,
                  exhaustive=exhaustive, known={'C14-model-restriction-widens': nk} if nk else {}, distinct=acc,
                  samples=[dict(base=cm.show(sel[0]), candidates=[cm.show(d) for d in itertools.islice(edits(sel[0]), 3)])] if sel else [],
                  notes=f'{acc} candidate restrictions were accepted by the builder and checked for language inclusion')]
    sf = []; sk = 0; sn = 0
    for ver, (n_, wid) in zip(('1.0', '1.1'), pmap(eval_seq_over_choice, ['1.0', '1.1'], chunk=1)):
        sn += n_
        for w in wid:
            if w['key'] in known and 'C14-model-restriction-widens' in open_findings: sk += 1; continue
            sf.append(dict(case=dict(seq_over_choice=w['key'], version=ver), observed=f"restriction {cm.show(w['der_model'])} of {cm.show(w['base'])} accepted although it admits {w['word']!r}", required='accepted restriction => L(derived) subset of L(base)'))
    out.append(result('C14.sequence_over_some_branches_of_a_choice', '375 three-branch choices (5 bounds per branch, 3 bounds of the choice) x 8 sequences over two of the branches x 2 classes, words <= 5', sn, sf, exhaustive=True,
                      known={'C14-model-restriction-widens': sk} if sk else {}))
    pbases = [m for m in bases if m[0] in ('seq', 'cho') and tuple(m[2]) == (1, 1)]
    rsel, rex = part(pbases, tier, seed + 1, 2)
    rjobs = [(m, ver) for m in rsel for ver in ('1.0', '1.1')]
    rres = pmap(eval_redefine, rjobs)
    rf = []; rk = 0; rp = ra = 0
    for r, (m, ver) in zip(rres, rjobs):
        rp += r['pairs']; ra += r['accepted']
        for w in r['widening']:
            if (f"{ver}|{r['base']}|{w['derived']}" in known or f"redefine:{ver}|{r['base']}|{w['derived']}|{w['top']}" in known) and 'C14-model-restriction-widens' in open_findings: rk += 1; continue
            rf.append(dict(case=dict(redefine=True, base=m, derived=w['der_model'], version=ver, top=w['top']),
                           observed=f"group {r['base']} redefined (without self-reference) as {w['derived']} is accepted through {w['top']} although the redefinition admits {w['word']!r}",
                           required='a redefinition of a group that does not refer to itself is accepted only if it is a restriction, at every level of a chain of redefinitions'))
    out.append(result('C14.redefined_groups', f'{len(rsel)} of {len(pbases)} base groups (one compositor, occurring once) x <=46 candidate redefinitions that are not restrictions x (b.xsd redefines a.xsd; c.xsd extends the group of b.xsd by self-reference) x 2 classes',
                      rp, rf, exhaustive=rex, known={'C14-model-restriction-widens': rk} if rk else {}, distinct=rp,
                      notes=f'{ra} of the non-restricting redefinitions were accepted by the builder (each is a listed known pair or a failure)'))
    from . import C14_facets
    out += C14_facets.run(tier, seed, open_findings)
    return out


def replay(check_name, case):
    if case.get('seq_over_choice'):
        mine = [w for w in eval_seq_over_choice(case['version'])[1] if w['key'] == case['seq_over_choice']]
        return dict(ok=not mine, observed=[dict(word=w['word']) for w in mine][:1], required='accepted restriction => L(derived) subset of L(base)')
    if check_name not in ('C14.model_restrictions', 'C14.redefined_groups'):
        from . import C14_facets
        return C14_facets.replay(check_name, case)
    base, der, ver = _tuplify(case['base']), _tuplify(case['derived']), case['version']
    import xmlschema
    if case.get('redefine'):
        r = eval_redefine((base, ver))
        mine = [w for w in r['widening'] if w['derived'] == cm.show(der) and w['top'] == case['top']]
        return dict(ok=not mine, observed=mine[:1], required='refused')
    try: s = _cls(ver)(schema_text(base, der))
    except xmlschema.XMLSchemaException as e: return dict(ok=True, observed=f'rejected: {type(e).__name__}', required='-')
    bad = [w for w in WORDS if cm.in_language(der, w) and not cm.in_language(base, w)]
    return dict(ok=not bad, observed=dict(accepted=True, widening_words=bad[:5]), required='L(derived) subset of L(base)')
