"""C09 on the repository's own corpus (labelled bounded): every schema the test factory builds for an instance document of tests/test_cases,
arranged differently, gives the same global components and the same errors and data for the probe instances (the document and seeded single-node
mutations of it).

Arrangements: built twice (clear + build), the maps copied and rebuilt, restored from a pickle, the main schema document given under other
spellings of its location (absolute path, file URL, dotted path), and - the forward-reference clause - the top-level declarations of the main schema
document permuted (compositors, annotations and defaultOpenContent stay in front, as the XSD grammar requires; the permuted text is built with the
original directory as base URL, so its includes and imports resolve as before).
"""
import copy, os, pickle, random
from .common import pmap, result
from . import corpus

KINDS = ('twice', 'copy', 'pickle', 'spell-url', 'spell-dotted', 'permute', 'permute2')
XSD = '{http://www.w3.org/2001/XMLSchema}'
FRONT = {XSD + x for x in ('include', 'import', 'redefine', 'override', 'annotation', 'defaultOpenContent')}


def summary(s, probes):
    g = sorted((type(c).__name__, c.name or '') for c in s.maps.iter_globals())
    res = []
    for p in probes:
        try:
            errs = corpus.sig(s.iter_errors(p)); data = repr(s.decode(p, validation='lax')[0])
        except Exception as e:
            errs = [('EXC', type(e).__name__, str(e)[:80])]; data = None
        res.append((errs, data))
    return g, res


def arrange(case, kind, seed):
    import xmlschema
    import lxml.etree as LE
    cls = xmlschema.XMLSchema11 if case['ver'] == '1.1' else xmlschema.XMLSchema10
    f = os.path.join(corpus.CASES_DIR, case['file'])
    source, locs = xmlschema.fetch_schema_locations(f, case['locations'])
    kw = dict(validation='lax', locations=locs, defuse=case['defuse'])
    path = source[7:] if source.startswith('file://') else source
    if kind == 'base': return cls(source, **kw)
    if kind == 'twice': s = cls(source, **kw); s.maps.clear(); s.build(); return s
    if kind == 'copy': s0 = cls(source, **kw); maps = copy.copy(s0.maps); maps.build(); return maps.validator
    if kind == 'pickle': return pickle.loads(pickle.dumps(cls(source, **kw)))
    if kind == 'spell-url': return cls(('file://' + path) if not source.startswith('file://') else path, **kw)
    if kind == 'spell-dotted':
        d, b = os.path.split(path); return cls(os.path.join(d, '..', os.path.basename(d), '.', b), **kw)
    if kind.startswith('permute'):
        root = LE.parse(path).getroot()
        kids = [c for c in root if isinstance(c.tag, str)]
        front = [c for c in kids if c.tag in FRONT]; rest = [c for c in kids if c.tag not in FRONT]
        rng = random.Random(f'{seed}:{kind}:{case["file"]}')
        if kind == 'permute': rest.reverse()
        else: rng.shuffle(rest)
        for c in list(root): root.remove(c)
        for c in front + rest: c.tail = '\n'; root.append(c)
        return cls(LE.tostring(root).decode(), base_url=os.path.dirname(path), **kw)
    raise ValueError(kind)


def eval_case(args):
    case, seed, nprobe = args
    try: base = arrange(case, 'base', seed)
    except Exception as e: return dict(case=case, skipped=f'base schema not built: {type(e).__name__}', bad=[], cases=0)
    if base.all_errors: return dict(case=case, skipped='schema with errors', bad=[], cases=0)
    data = open(os.path.join(corpus.CASES_DIR, case['file']), 'rb').read()
    probes = [d for _, d in corpus.mutants(data, random.Random(f'{seed}:{case["file"]}'), nprobe)]
    ref = summary(base, probes)
    bad = []; n = 0
    for kind in KINDS:
        n += len(probes)
        try: got = summary(arrange(case, kind, seed), probes)
        except Exception as e: bad.append((kind, f'arrangement raised {type(e).__name__}: {str(e)[:120]}')); continue
        if got[0] != ref[0]:
            d = sorted(set(got[0]) ^ set(ref[0]))[:3]; bad.append((kind, f'global components differ: {d}'))
        elif got[1] != ref[1]:
            i = [k for k in range(len(probes)) if got[1][k] != ref[1][k]][0]
            bad.append((kind, f'probe {i} differs: {str(got[1][i])[:200]} vs {str(ref[1][i])[:200]}'))
    return dict(case=case, bad=bad, cases=n)


def family(tier, seed, open_findings):
    cs = [c for c in corpus.cases() if not c['file'].startswith('feature:')]; nprobe = 12 if tier == 'thorough' else 3
    res = pmap(eval_case, [(c, seed, nprobe) for c in cs], chunk=1)
    fails = [dict(case=dict(file=r['case']['file'], ver=r['case']['ver'], locations=r['case']['locations'], defuse=r['case']['defuse'], kind=b[0], seed=seed, nprobe=nprobe), observed=b[1],
                  required='same global components, errors and data as the schema built from the files as they are') for r in res for b in r['bad']]
    skipped = [f"{r['case']['file']} ({r['skipped']})" for r in res if r.get('skipped')]
    total = sum(r['cases'] for r in res)
    return result('C09.corpus_arrangements', f'{len(cs) - len(skipped)} corpus schemas (as built for the instance documents of tests/test_cases) x {len(KINDS)} arrangements ({", ".join(KINDS)}) x (document + {nprobe} mutations)',
                  total, fails[:40], samples=[dict(file=cs[0]['file'], kind='permute')] if cs else [], distinct=total, notes=('skipped: ' + '; '.join(skipped)) if skipped else None)


def replay(case):
    c = dict(file=case['file'], ver=case['ver'], locations=case.get('locations'), defuse=case.get('defuse', 'remote'))
    r = eval_case((c, case.get('seed', 0), case.get('nprobe', 3)))
    mine = [b for b in r['bad'] if b[0] == case.get('kind')] or r['bad']
    return dict(ok=not mine, observed=mine[:2], required='same as the schema built from the files as they are')
