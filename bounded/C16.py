"""C16 bounded cross-check through the public API (labelled bounded): every pair of namespace constraints over a pool, through real schemas.

extension: the derived type's attribute wildcard admits exactly the union; attribute-group composition: exactly the intersection;
restriction: accepted only if included; two element wildcards in a choice: model error exactly when the sets intersect.  Universe: the
absent namespace, the target namespace, each pool namespace and a fresh one.  XSD 1.1 adds notNamespace / notQName forms.
"""
import itertools
from .common import pmap, result, part
from .C01 import _cls
XS = 'xmlns:xs="http://www.w3.org/2001/XMLSchema"'
T = 'urn:t'; POOL = ['urn:a', 'urn:b']
UNIVERSE = ['', T, 'urn:a', 'urn:b', 'urn:fresh']


def forms(ver):
    out = [('namespace', '##any'), ('namespace', '##other'), ('namespace', '##local'), ('namespace', '##targetNamespace'), ('namespace', ''),
           ('namespace', 'urn:a'), ('namespace', 'urn:a urn:b'), ('namespace', '##local urn:a'), ('namespace', '##targetNamespace urn:b'), ('namespace', '##local ##targetNamespace')]
    if ver == '1.1':
        out += [('notNamespace', '##local'), ('notNamespace', '##targetNamespace'), ('notNamespace', 'urn:a'), ('notNamespace', '##local urn:a'), ('notNamespace', '##targetNamespace urn:a urn:b')]
        # names excluded one by one (notQName): the set reading is over names, not namespaces
        out += [('namespace', 'urn:b', 'b:x'), ('namespace', '##any', 'a:x t:y'), ('notNamespace', 'urn:a', 'b:x t:x'), ('namespace', '##other', 'a:y')]
    return out


PFX = {'a': 'urn:a', 'b': 'urn:b', 't': T}
LOCALS = ['x', 'y']
NAMES = [(ns, ln) for ns in UNIVERSE for ln in LOCALS]


def denote(form, name):
    ns, ln = name if isinstance(name, tuple) else (name, None)
    kind, val = form[:2]
    if len(form) > 2 and (ns, ln) in {(PFX[q.split(':')[0]], q.split(':')[1]) for q in form[2].split()}: return False
    toks = val.split()
    m = lambda t: '' if t == '##local' else T if t == '##targetNamespace' else t
    if kind == 'notNamespace': return ns not in {m(t) for t in toks}
    if val == '##any': return True
    if val == '##other': return ns not in ('', T)
    return ns in {m(t) for t in toks}


def nq(form): return f' notQName="{form[2]}"' if len(form) > 2 else ''
def attr(form): return f'<xs:anyAttribute {form[0]}="{form[1]}"{nq(form)} processContents="skip"/>'
def anyel(form): return f'<xs:any {form[0]}="{form[1]}"{nq(form)} processContents="skip"/>'


def admitted(s, elem):
    out = set()
    for ns, ln in NAMES:
        a = f'xmlns:n="{ns}" n:{ln}="1"' if ns else f'{ln}="1"'
        if s.is_valid(f'<t:{elem} xmlns:t="{T}" {a}/>'): out.add((ns, ln))
    return out


def eval_pair(args):
    ver, fa, fb = args
    import xmlschema
    A = {n for n in NAMES if denote(fa, n)}; B = {n for n in NAMES if denote(fb, n)}
    bad = []
    head = f'<xs:schema {XS} targetNamespace="{T}" xmlns:t="{T}" xmlns:a="urn:a" xmlns:b="urn:b">'
    # extension -> union
    try:
        s = _cls(ver)(head + f'<xs:complexType name="Base">{attr(fa)}</xs:complexType><xs:complexType name="Der"><xs:complexContent><xs:extension base="t:Base">{attr(fb)}</xs:extension></xs:complexContent></xs:complexType>'
                      '<xs:element name="d" type="t:Der"/></xs:schema>')
        got = admitted(s, 'd')
        if got != A | B: bad.append(('extension-union', sorted(got), sorted(A | B)))
    except xmlschema.XMLSchemaException as e:
        # XSD 1.0: a union that is not expressible may be refused (Structures 3.10.6 case 5.3)
        if not (ver == '1.0' and 'not expressible' in str(e)): bad.append(('extension-union', f'schema refused: {type(e).__name__}: {str(e)[:80]}', sorted(A | B)))
    # attribute group + local wildcard -> intersection
    try:
        s = _cls(ver)(head + f'<xs:attributeGroup name="G">{attr(fa)}</xs:attributeGroup><xs:complexType name="C"><xs:attributeGroup ref="t:G"/>{attr(fb)}</xs:complexType><xs:element name="c" type="t:C"/></xs:schema>')
        got = admitted(s, 'c')
        if got != A & B: bad.append(('group-intersection', sorted(got), sorted(A & B)))
    except xmlschema.XMLSchemaException as e:
        bad.append(('group-intersection', f'schema refused: {type(e).__name__}: {str(e)[:80]}', sorted(A & B)))
    # restriction: accepted => included   (the restricted wildcard is fb, the base fa)
    try:
        s = _cls(ver)(head + f'<xs:complexType name="Base">{attr(fa)}</xs:complexType><xs:complexType name="Res"><xs:complexContent><xs:restriction base="t:Base">{attr(fb)}</xs:restriction></xs:complexContent></xs:complexType>'
                      '<xs:element name="r" type="t:Res"/></xs:schema>')
        if not B <= A: bad.append(('restriction-accepted-but-not-included', sorted(B - A), 'schema error'))
    except xmlschema.XMLSchemaException:
        pass
    # a restriction that declares NO wildcard admits none of the names of its base (fa): it stands for the empty set - an extension of it with fb admits exactly B, and a further
    # restriction that declares fb is a restriction only if B is empty
    try:
        s = _cls(ver)(head + f'<xs:complexType name="Base">{attr(fa)}</xs:complexType><xs:complexType name="Res0"><xs:complexContent><xs:restriction base="t:Base"/></xs:complexContent></xs:complexType>'
                      f'<xs:complexType name="Ext"><xs:complexContent><xs:extension base="t:Res0">{attr(fb)}</xs:extension></xs:complexContent></xs:complexType><xs:element name="n" type="t:Res0"/><xs:element name="e" type="t:Ext"/></xs:schema>')
        got = admitted(s, 'n')
        if got: bad.append(('restriction-without-wildcard-admits', sorted(got), []))
        got = admitted(s, 'e')
        if got != B: bad.append(('extension-of-the-empty-wildcard', sorted(got), sorted(B)))
    except xmlschema.XMLSchemaException as e:
        bad.append(('restriction-without-wildcard', f'schema refused: {type(e).__name__}: {str(e)[:80]}', 'accepted'))
    try:
        _cls(ver)(head + f'<xs:complexType name="Base">{attr(fa)}</xs:complexType><xs:complexType name="Res0"><xs:complexContent><xs:restriction base="t:Base"/></xs:complexContent></xs:complexType>'
                  f'<xs:complexType name="Res1"><xs:complexContent><xs:restriction base="t:Res0">{attr(fb)}</xs:restriction></xs:complexContent></xs:complexType></xs:schema>')
        if B: bad.append(('restriction-of-the-empty-wildcard-accepted', sorted(B), 'schema error'))
    except xmlschema.XMLSchemaException:
        pass
    # overlap of two element wildcards in a choice (namespace constraints only: the forms with notQName are left to the three clauses above)
    if len(fa) > 2 or len(fb) > 2: return dict(ver=ver, a=fa, b=fb, bad=bad)
    try:
        _cls(ver)(head + f'<xs:element name="o"><xs:complexType><xs:choice>{anyel(fa)}{anyel(fb)}</xs:choice></xs:complexType></xs:element></xs:schema>'); built = True
    except xmlschema.XMLSchemaModelError: built = False
    except xmlschema.XMLSchemaException as e: built = f'error {type(e).__name__}'
    # names of the XSI namespace are outside the universe; a fresh namespace stands for every other one
    inter = bool(A & B)
    if built is True and inter: bad.append(('overlap', 'accepted', 'model error: the sets intersect in ' + str(sorted(A & B))))
    if built is False and not inter: bad.append(('overlap', 'model error', 'accepted: the sets are disjoint'))
    return dict(ver=ver, a=fa, b=fb, bad=bad)


def eval_oc_extension(args):
    """XSD 1.1: the open content of an extension admits the UNION of its own wildcard and the wildcard of the base type's open content - whether the base has an explicit
    xs:openContent or takes the schema's xs:defaultOpenContent"""
    fa, fb, base_kind = args
    import xmlschema
    A = {ns for ns in UNIVERSE if denote(fa, ns)}; B = {ns for ns in UNIVERSE if denote(fb, ns)}
    oc = lambda f: f'<xs:openContent mode="interleave">{anyel(f)}</xs:openContent>'
    dflt = f'<xs:defaultOpenContent mode="interleave">{anyel(fa)}</xs:defaultOpenContent>' if base_kind == 'default' else ''
    xsd = (f'<xs:schema {XS} targetNamespace="{T}" xmlns:t="{T}" xmlns:a="urn:a" xmlns:b="urn:b" elementFormDefault="qualified">{dflt}'
           f'<xs:complexType name="Base">{oc(fa) if base_kind == "explicit" else ""}<xs:sequence><xs:element name="foo" minOccurs="0"/></xs:sequence></xs:complexType>'
           f'<xs:complexType name="Der"><xs:complexContent><xs:extension base="t:Base">{oc(fb)}<xs:sequence><xs:element name="bar" minOccurs="0"/></xs:sequence></xs:extension></xs:complexContent></xs:complexType>'
           f'<xs:element name="d" type="t:Der"/><xs:element name="b" type="t:Base"/></xs:schema>')
    try: s = xmlschema.XMLSchema11(xsd)
    except xmlschema.XMLSchemaException as e: return dict(args=[list(fa), list(fb), base_kind], bad=[('schema refused', f'{type(e).__name__}: {str(e).splitlines()[0][:90]}', sorted(A | B))])
    bad = []
    for tag, want in (('d', A | B), ('b', A)):
        got = set()
        for ns in UNIVERSE:
            kid = f'<n:x xmlns:n="{ns}"/>' if ns else '<x xmlns=""/>'
            if s.is_valid(f'<t:{tag} xmlns:t="{T}">{kid}</t:{tag}>'): got.add(ns)
        # (names of the target namespace compete with the declared children foo / bar: x is neither)
        if got != want: bad.append((tag, sorted(got), sorted(want)))
    return dict(args=[list(fa), list(fb), base_kind], bad=bad) if bad else None


def run(tier, seed, open_findings):
    jobs = [(ver, a, b) for ver in ('1.0', '1.1') for a in forms(ver) for b in forms(ver)]
    res = pmap(eval_pair, jobs)
    fails = [dict(case=dict(ver=r['ver'], a=list(r['a']), b=list(r['b']), what=b[0]), observed=b[1], required=b[2]) for r in res for b in r['bad']]
    # the wildcard computed for a type that references two attribute groups (C03's family, the clause is C16's: combined groups admit the intersection)
    from . import C03
    tjobs = [(g1, g2, '1.1', False) for g1 in C03.GW11 for g2 in C03.GW11] + [(g1, g2, '1.0', True) for g1 in C03.GW for g2 in C03.GW]
    tres = pmap(C03.eval_two_groups, tjobs, chunk=4)
    tfail = [dict(case=dict(two_groups=list(r['args'])), observed=[list(b) for b in r['bad'][:4]], required='a type that references two attribute groups admits the intersection of their wildcards') for r in tres if r]
    two = result('C16.two_attribute_groups_intersection', f'{len(tjobs)} schemas: one type referencing two attribute groups with wildcards, and under XSD 1.1 an extension that adds the second group to a type with the first: the union (XSD 1.1 incl. notNamespace / notQName; XSD 1.0 with the second group in an imported schema) x 6 names',
                 len(tjobs) * 6, tfail, exhaustive=True, distinct=len(tjobs) * 6)
    # the wildcard of an open content (explicit, or the schema's default one) against the open content of the base type in a restriction: C14's family, the clause is C16's
    # (a wildcard is accepted as a restriction of another only if its set is included)
    from . import C14_facets
    ojobs = C14_facets.open_jobs(); ores = pmap(C14_facets.eval_open_restriction, ojobs, chunk=2)
    ofail = [dict(case=dict(open=True, default=j[0], base=j[1], derived=j[2], derived_model=j[3]), observed=f'the restricted type accepts the children {r[:5]} (f = foo, e = extra, x = foreign) that the base type rejects',
                  required='an accepted restriction admits, through its open content, only what the open content of the base admits') for r, j in zip(ores, ojobs) if r]
    oc = result('C16.open_content_wildcard_restrictions', f'{len(ojobs)} (defaultOpenContent, open content of the base, of the restriction, derived model) under XMLSchema11 x {len(C14_facets.OC_WORDS)} child sequences',
                len(ojobs), ofail, exhaustive=True, distinct=sum(1 for r in ores if r is not None))
    F11 = [f for f in forms('1.1') if len(f) == 2]
    ejobs = [(fa, fb, bk) for fa in F11 for fb in F11 for bk in ('explicit', 'default')]
    ejobs, eex = part(ejobs, tier, seed, 3)
    eres = pmap(eval_oc_extension, ejobs, chunk=4)
    oce = result('C16.open_content_extension_union', f'{len(ejobs)} (wildcard of the base open content, wildcard of the extension, base open content explicit / from defaultOpenContent) under XMLSchema11 x the universe {UNIVERSE}',
                 len(ejobs) * 2, [dict(case=dict(oc_extension=r['args']), observed=[list(b) for b in r['bad'][:3]], required='the extension is accepted and admits the union; the base admits its own set') for r in eres if r], exhaustive=eex)
    return [oce, oc, two, result('C16.pairs_through_real_schemas', f'{len(jobs)} ordered pairs of constraints x (extension, attribute group, restriction, choice of two xs:any) over the universe {UNIVERSE}', len(jobs) * 4, fails,
                   exhaustive=True, samples=[dict(a=['namespace', '##other'], b=['namespace', '##targetNamespace urn:b'], op='extension')], distinct=len(jobs) * 4)]


def replay(check_name, case):
    if case.get('oc_extension'):
        a = case['oc_extension']; r = eval_oc_extension((tuple(a[0]), tuple(a[1]), a[2])); return dict(ok=r is None, observed=r and r['bad'][:2], required='union of the two sets')
    if case.get('open'):
        from . import C14_facets
        return C14_facets.replay(check_name, case)
    if 'two_groups' in case:
        from . import C03
        return C03.replay(check_name, case)
    r = eval_pair((case['ver'], tuple(case['a']), tuple(case['b'])))
    mine = [b for b in r['bad'] if b[0] == case.get('what')]
    return dict(ok=not mine, observed=mine, required='set reading')
