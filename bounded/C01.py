"""C01 bounded run-time contract on the real schema API (labelled bounded, never counted as proved):

    for a schema whose root content model m is deterministic (upa_ok(m)) and accepted by the builder,
    is_valid(doc(w)) <=> w in L(m), and a rejected w yields an error attached to the parent element.

Deciding scope (fixed, seed independent): cm.two_level_models() and its mirror cm.two_level_models_rev() (sibling before the nested group) x words over {a,b} up to length 5, both schema classes;
plus cm.variant_models() (wildcard leaves, all groups) x words over {a,b,x} up to length 4.  Mismatches recorded on the
unchanged tree are listed per (class, model) with their exact word sets in baseline/C01_instances.json.
"""
import random
from . import cm
from .common import pmap, load_instances, result, part

WORDS2 = cm.words('ab', 5)
WORDS3 = cm.words('abx', 3) + [w for w in cm.words('abx', 4) if len(w) == 4 and 'x' in w][:40]


def _cls(ver):
    import xmlschema
    return xmlschema.XMLSchema11 if ver == '1.1' else xmlschema.XMLSchema10


def evaluate(args):
    """-> (show(m), ver, built, det, mismatches [(word, got_valid)], bad_error_location [(word)])"""
    m, ver, wordset = args
    import xmlschema
    # decided only for models that are deterministic in the strict (XSD 1.0) sense: where an element particle competes with a wildcard
    # XSD 1.1 accepts the model but the two readings of 'validation-path' (Structures 1.1, 3.8.4.1) disagree on some words -> reported, not judged
    det = cm.upa_ok(m, '1.0')
    try:
        s = _cls(ver)(cm.schema_text(m)); built = True
    except xmlschema.XMLSchemaModelError:
        built = False
    except xmlschema.XMLSchemaException as e:
        built = 'error:' + type(e).__name__
    mism, badloc = [], []
    if built is True and det:
        for w in (WORDS2 if wordset == 2 else WORDS3):
            d = cm.doc(w)
            try:
                errs = list(s.iter_errors(d))
            except Exception as e:
                mism.append((w, 'raised ' + type(e).__name__)); continue
            got = not errs; exp = cm.in_language(m, w)
            if got != exp: mism.append((w, got))
            elif errs and not any(getattr(e.elem, 'tag', None) == 'r' for e in errs): badloc.append(w)
    return cm.show(m), ver, built, det, mism, badloc


def check(models, wordset, tier, seed, known, label, k):
    sel, exhaustive = part(models, tier, seed, k)
    jobs = [(m, ver, wordset) for m in sel for ver in ('1.0', '1.1')]
    res = pmap(evaluate, jobs)
    failures, nknown, decided = [], 0, 0
    for (name, ver, built, det, mism, badloc), (m, _, _) in zip(res, jobs):
        if built is True and det: decided += 1
        rec = known.get(ver, {}).get(name)
        cur = [[w, g] for w, g in mism]
        if cur or badloc:
            if rec is not None and rec.get('mismatches') == cur and rec.get('badloc', []) == badloc: nknown += 1; continue
            failures.append(dict(case=dict(model=m, version=ver, wordset=wordset), model=name, observed=dict(mismatches=cur[:6], errors_not_on_parent=badloc[:6]),
                                 required='is_valid(doc(w)) <=> w in L(m); a rejected sequence has an error on the parent element',
                                 baseline=rec))
        elif rec is not None and (rec.get('mismatches') or rec.get('badloc')):
            pass    # a listed instance that no longer fails is not an alarm
    return result(label, f'{len(sel)} of {len(models)} models x 2 schema classes x {len(WORDS2 if wordset == 2 else WORDS3)} words', len(jobs), failures,
                  exhaustive=exhaustive, known={'C01-single-particle-group-counter': nknown} if nknown else {},
                  samples=[dict(model=cm.show(sel[0]), words=(WORDS2 if wordset == 2 else WORDS3)[:5])] if sel else [],
                  distinct=decided, notes=f'{decided} (model, class) pairs were deterministic by the spec and accepted by the builder, hence decided')


def run(tier, seed, open_findings):
    known = load_instances('C01_instances.json') if 'C01-single-particle-group-counter' in open_findings else {}
    out = [check(list(cm.two_level_models()), 2, tier, seed, known, 'C01.two_level_models', 6),
           check(list(cm.two_level_models_rev()), 2, tier, seed, known, 'C01.two_level_models_rev', 6),
           check(list(cm.variant_models()), 3, tier, seed, known, 'C01.variant_models', 1)]
    return out


def replay(check_name, case):
    if 'witness_model' in case:
        case = dict(model=case['witness_model'], version=case.get('version', '1.0'), wordset=2)
    m = _tuplify(case['model'])
    name, ver, built, det, mism, badloc = evaluate((m, case['version'], case.get('wordset', 2)))
    return dict(ok=not mism and not badloc, observed=dict(model=name, built=built, deterministic=det, mismatches=mism[:8], badloc=badloc[:8]),
                required='is_valid(doc(w)) <=> w in L(m)')


def _tuplify(m):
    if m[0] in ('e', 'w'): return (m[0], m[1], tuple(m[2]))
    return (m[0], [_tuplify(c) for c in m[1]], tuple(m[2]))
