"""C01 bounded run-time contract on the real schema API (labelled bounded, never counted as proved):

    for a schema whose root content model m is deterministic (upa_ok(m)) and accepted by the builder,
    is_valid(doc(w)) <=> w in L(m), and a rejected w yields an error attached to the parent element.

Deciding scope (fixed, seed independent): cm.two_level_models() and its mirror cm.two_level_models_rev() (sibling before the nested group) x words over {a,b} up to length 5, both schema classes;
plus cm.variant_models() (wildcard leaves, all groups) x words over {a,b,x} up to length 4.  Mismatches recorded on the
unchanged tree are listed per (class, model) with their exact word sets in baseline/C01_instances.json.
"""
import random
from . import cm
from .common import pmap, load_instances, result, part

WORDS2 = cm.words('ab', 5)
WORDS3 = cm.words('abx', 3) + [w for w in cm.words('abx', 4) if len(w) == 4 and 'x' in w][:40]


def _cls(ver):
    import xmlschema
    return xmlschema.XMLSchema11 if ver == '1.1' else xmlschema.XMLSchema10


def evaluate(args):
    """-> (show(m), ver, built, det, mismatches [(word, got_valid)], bad_error_location [(word)])"""
    m, ver, wordset = args
    import xmlschema
    # decided only for models that are deterministic in the strict (XSD 1.0) sense: where an element particle competes with a wildcard
    # XSD 1.1 accepts the model but the two readings of 'validation-path' (Structures 1.1, 3.8.4.1) disagree on some words -> reported, not judged
    det = cm.upa_ok(m, '1.0')
    try:
        s = _cls(ver)(cm.schema_text(m)); built = True
    except xmlschema.XMLSchemaModelError:
        built = False
    except xmlschema.XMLSchemaException as e:
        built = 'error:' + type(e).__name__
    mism, badloc = [], []
    if built is True and det:
        for w in (WORDS2 if wordset == 2 else WORDS3):
            d = cm.doc(w)
            try:
                errs = list(s.iter_errors(d))
            except Exception as e:
                mism.append((w, 'raised ' + type(e).__name__)); continue
            got = not errs; exp = cm.in_language(m, w)
            if got != exp: mism.append((w, got))
            elif errs and not any(getattr(e.elem, 'tag', None) == 'r' for e in errs): badloc.append(w)
    return cm.show(m), ver, built, det, mism, badloc


def check(models, wordset, tier, seed, known, label, k):
    sel, exhaustive = part(models, tier, seed, k)
    jobs = [(m, ver, wordset) for m in sel for ver in ('1.0', '1.1')]
    res = pmap(evaluate, jobs)
    failures, nknown, decided = [], 0, 0
    for (name, ver, built, det, mism, badloc), (m, _, _) in zip(res, jobs):
        if built is True and det: decided += 1
        rec = known.get(ver, {}).get(name)
        cur = [[w, g] for w, g in mism]
        if cur or badloc:
            if rec is not None and rec.get('mismatches') == cur and rec.get('badloc', []) == badloc: nknown += 1; continue
            failures.append(dict(case=dict(model=m, version=ver, wordset=wordset), model=name, observed=dict(mismatches=cur[:6], errors_not_on_parent=badloc[:6]),
                                 required='is_valid(doc(w)) <=> w in L(m); a rejected sequence has an error on the parent element',
                                 baseline=rec))
        elif rec is not None and (rec.get('mismatches') or rec.get('badloc')):
            pass    # a listed instance that no longer fails is not an alarm
    return result(label, f'{len(sel)} of {len(models)} models x 2 schema classes x {len(WORDS2 if wordset == 2 else WORDS3)} words', len(jobs), failures,
                  exhaustive=exhaustive, known={'C01-single-particle-group-counter': nknown} if nknown else {},
                  samples=[dict(model=cm.show(sel[0]), words=(WORDS2 if wordset == 2 else WORDS3)[:5])] if sel else [],
                  distinct=decided, notes=f'{decided} (model, class) pairs were deterministic by the spec and accepted by the builder, hence decided')


# ---------------------------------------------------------------- substitution-group members as leaves
# head h; m substitutes h and is abstract; n substitutes m (concrete); k substitutes n; z is unrelated.  A reference to h admits h, n, k
# (transitively, through the abstract member), never m itself; a reference to n admits n and k.
SUBST = {'h': set('hnk'), 'n': set('nk'), 'z': set('z')}
SUB_GLOBALS = ('<xs:element name="h"/><xs:element name="m" substitutionGroup="h" abstract="true"/><xs:element name="n" substitutionGroup="m"/>'
               '<xs:element name="k" substitutionGroup="n"/><xs:element name="z"/>')
SUB_WORDS = cm.words('hmnkz', 3)


def sub_models():
    occ = cm.OCC[:4] + [(0, 2)]
    for k in ('seq', 'cho'):
        for o in cm.OCC[:4]:
            for a, b in (('h', 'z'), ('z', 'h'), ('n', 'z'), ('h', 'n')):
                if k == 'cho' and {a, b} == {'h', 'n'}: continue       # overlapping choice branches: not deterministic
                for o1 in occ:
                    for o2 in occ[:3]:
                        if (a, b) == ('h', 'n') and o1 != (1, 1): continue     # h{..}, n overlap unless h is consumed exactly once
                        yield (k, [(a, o1), (b, o2)], o)


def sub_in_language(m, w):
    """the model with every reference replaced by the choice of the elements that may substitute it"""
    k, leaves, o = m
    mm = (k, [('cho', [('e', c, (1, 1)) for c in sorted(SUBST[name])], oc) for name, oc in leaves], o)
    return cm.in_language(mm, w)


def sub_eval(args):
    m, ver = args
    import xmlschema
    k, leaves, o = m
    body = '<xs:%s%s>%s</xs:%s>' % ({'seq': 'sequence', 'cho': 'choice'}[k], cm.occ_attr(o), ''.join(f'<xs:element ref="{n}"{cm.occ_attr(oc)}/>' for n, oc in leaves), {'seq': 'sequence', 'cho': 'choice'}[k])
    mm = (k, [('cho', [('e', c, (1, 1)) for c in sorted(SUBST[name])], oc) for name, oc in leaves], o)
    if not cm.upa_ok(mm, '1.0'): return None
    try: s = _cls(ver)(f'<xs:schema {cm.XS}><xs:element name="r"><xs:complexType>{body}</xs:complexType></xs:element>{SUB_GLOBALS}</xs:schema>')
    except xmlschema.XMLSchemaException: return None
    mism = []
    for w in SUB_WORDS:
        try: got = s.is_valid(cm.doc(w))
        except Exception as e: got = 'raised ' + type(e).__name__
        if got != sub_in_language(m, w): mism.append((w, got))
    return dict(model=m, ver=ver, mismatches=mism[:6]) if mism else False


def check_subst(tier, seed):
    models = list(sub_models()); sel, exhaustive = part(models, tier, seed, 2)
    jobs = [(m, ver) for m in sel for ver in ('1.0', '1.1')]
    res = pmap(sub_eval, jobs)
    fails = [dict(case=dict(subst=True, model=r['model'], version=r['ver']), observed=dict(mismatches=r['mismatches']), required='is_valid(doc(w)) <=> w in L(m) with every reference read as the choice of its substitutes')
             for r in res if r]
    decided = sum(1 for r in res if r is not None)
    return result('C01.substitution_group_leaves', f'{len(sel)} of {len(models)} two-leaf models over references to a head (abstract intermediate member, two-level chain), a member and an unrelated element x {len(SUB_WORDS)} words x 2 classes',
                  len(jobs), fails, exhaustive=exhaustive, samples=[dict(model=str(sel[0]))] if sel else [], distinct=decided)


# ---------------------------------------------------------------- group references as the content (or a particle) of a complex type
def ref_models():
    inner = [('all', [('e', 'a', (1, 1)), ('e', 'b', (0, 1))], (1, 1)), ('all', [('e', 'a', (0, 1)), ('e', 'b', (0, 1))], (1, 1)),
             ('seq', [('e', 'a', (1, 1)), ('e', 'b', (0, 1))], (1, 1)), ('cho', [('e', 'a', (1, 1)), ('e', 'b', (1, 1))], (1, 1)), ('seq', [('e', 'a', (0, 1))], (1, 1))]       # (no ranged particle inside the choice: that is the listed counter finding)
    for g in inner:
        for o in ([(1, 1), (0, 1)] if g[0] == 'all' else cm.OCC[:6]):
            yield ('top', g, o)                                    # <xs:group ref="G" occurs/> is the whole content
            if g[0] != 'all':
                for o2 in ((1, 1), (0, 1)): yield ('inseq', g, o, o2)  # sequence(group ref occurs, c occurs2)


def ref_eval(args):
    spec, ver = args
    import xmlschema
    kind, g, o = spec[:3]
    gdef = f'<xs:group name="G">{cm.xsd((g[0], g[1], (1, 1))).replace(cm.occ_attr((1, 1)), "", 1)}</xs:group>'
    ref = f'<xs:group ref="G"{cm.occ_attr(o)}/>'
    body = ref if kind == 'top' else f'<xs:sequence>{ref}<xs:element name="c"{cm.occ_attr(spec[3])}/></xs:sequence>'
    m = (g[0], g[1], o) if kind == 'top' else ('seq', [(g[0], g[1], o), ('e', 'c', spec[3])], (1, 1))
    if not cm.upa_ok(m, '1.0'): return None
    try: s = _cls(ver)(f'<xs:schema {cm.XS}>{gdef}<xs:element name="r"><xs:complexType>{body}</xs:complexType></xs:element></xs:schema>')
    except xmlschema.XMLSchemaException: return None
    mism = []
    for w in cm.words('abc', 4):
        try: got = s.is_valid(cm.doc(w))
        except Exception as e: got = 'raised ' + type(e).__name__
        if got != cm.in_language(m, w): mism.append((w, got))
    return dict(spec=spec, ver=ver, model=cm.show(m), mismatches=mism[:6]) if mism else False


def check_refs(tier, seed):
    jobs = [(sp, ver) for sp in ref_models() for ver in ('1.0', '1.1')]
    res = pmap(ref_eval, jobs)
    fails = [dict(case=dict(groupref=True, spec=r['spec'], version=r['ver']), model=r['model'], observed=dict(mismatches=r['mismatches']), required='is_valid(doc(w)) <=> w in L(m) with the reference read as the group with the occurrence of the reference')
             for r in res if r]
    return result('C01.group_references', f'{len(jobs)} (model, class): a reference to a named all / sequence / choice group, with its own occurrence, as the whole content of a type or inside a sequence x 121 words',
                  len(jobs), fails, exhaustive=True, samples=[dict(content='<xs:group ref="G" minOccurs="0"/>', group='all(a, b?)')], distinct=sum(1 for r in res if r is not None))


# ---------------------------------------------------------------- XSD 1.1: an element particle competing with a wildcard
def eval_competition(m):
    """models that XSD 1.1 accepts although an element particle and a wildcard compete.  Decided for the words on which the two readings of the
    priority rule agree (cm.in_language = exists a validation path; cm.greedy_in_language = the element takes the child wherever both could)."""
    import xmlschema
    try: s = xmlschema.XMLSchema11(cm.schema_text(m))
    except xmlschema.XMLSchemaException: return None
    mism = []; n = 0
    for w in WORDS3:
        exp = cm.in_language(m, w)
        if exp != cm.greedy_in_language(m, w): continue
        n += 1
        try: got = s.is_valid(cm.doc(w))
        except Exception as e: got = 'raised ' + type(e).__name__
        if got != exp: mism.append([w, got])
    return dict(model=m, name=cm.show(m), decided=n, mismatches=mism)


def nested_competition_models():
    """an optional or repeatable ##any wildcard inside a NESTED group, followed - in that group or after it - by a declaration whose name it admits"""
    out = []
    for ik in ('seq', 'cho'):
        for wocc in ((0, 1), (0, None), (0, 2)):
            for iocc in ((1, 1), (0, 1)):
                inner = (ik, [('w', 'any', wocc), ('e', 'a', (1, 1))], iocc)
                out.append(('seq', [inner, ('e', 'b', (1, 1))], (1, 1)))
                out.append(('seq', [('e', 'b', (1, 1)), ('cho', [inner, ('e', 'c', (1, 1))], (1, 1))], (1, 1)))
                out.append(('seq', [('e', 'b', (0, 1)), inner, ('e', 'c', (1, 1))], (1, 1)))
                out.append(('seq', [('seq', [inner], (1, 1)), ('e', 'a', (0, 1))], (1, 1)))
    return out


def check_competition(tier, seed, open_findings):
    models = [m for m in cm.variant_models() if cm.upa_ok(m, '1.1') and not cm.upa_ok(m, '1.0')]
    sel, exhaustive = part(models, tier, seed, 2)
    nested = nested_competition_models(); sel = list(sel) + nested; models = models + nested          # the nested shapes are few: always all of them
    res = pmap(eval_competition, sel)
    K = 'C01-xsd11-wildcard-rejects-names-of-competing-elements'
    listed = load_instances('C01_xsd11_instances.json') if K in open_findings else {}
    fails = []; nk = 0
    for r in res:
        if not r or not r['mismatches']: continue
        if listed.get(r['name']) == r['mismatches']: nk += 1; continue
        fails.append(dict(case=dict(competition=True, model=r['model']), model=r['name'], observed=dict(mismatches=r['mismatches'][:6]), required='is_valid(doc(w)) <=> w in L(m) on the words where both readings of the priority rule agree',
                          baseline=listed.get(r['name'])))
    return result('C01.xsd11_wildcard_element_competition', f'{len(sel)} of {len(models)} models that only XSD 1.1 accepts (an element particle competes with a wildcard) x {len(WORDS3)} words, XMLSchema11',
                  len(sel), fails, exhaustive=exhaustive, known=({K: nk} if nk else {}), samples=[dict(model=cm.show(sel[0]))] if sel else [], distinct=sum(r['decided'] for r in res if r))


def prohibited_models():
    """particles with maxOccurs = 0 (an element, a choice, a sequence, a group nested in one): they contribute nothing to the language, wherever they stand - first in the
    model (where the visitor starts its descent), last, inside a nested group, next to a particle that reuses their names, under a repeating parent"""
    a = ('e', 'a', (1, 1)); b = ('e', 'b', (1, 1)); bo = ('e', 'b', (0, 1)); ao = ('e', 'a', (0, None))
    out = []
    for p in [('e', 'a', (0, 0)), ('cho', [a], (0, 0)), ('seq', [a, b], (0, 0)), ('seq', [('cho', [a], (0, 0))], (1, 1)), ('cho', [a, b], (0, 0)), ('seq', [a], (0, 0)), ('cho', [('seq', [a, b], (0, 0)), b], (1, 1))]:
        out += [('seq', [p, b], (1, 1)), ('seq', [b, p], (1, 1)), ('seq', [p, bo], (1, 1)), ('cho', [p, b], (1, 1)), ('seq', [p, a], (1, 1)), ('seq', [('seq', [p, a], (1, 1)), b], (1, 1)),
                ('seq', [p, b], (0, None)), ('seq', [bo, p, a], (1, 2)), ('seq', [p, ao, b], (1, 1)), ('cho', [('seq', [p, b], (1, 1)), a], (1, 2))]
    return out


def run(tier, seed, open_findings):
    known = load_instances('C01_instances.json') if 'C01-single-particle-group-counter' in open_findings else {}
    out = [check(list(cm.two_level_models()), 2, tier, seed, known, 'C01.two_level_models', 6),
           check(list(cm.two_level_models_rev()), 2, tier, seed, known, 'C01.two_level_models_rev', 6),
           check(list(cm.variant_models()), 3, tier, seed, known, 'C01.variant_models', 1), check_subst(tier, seed), check_refs(tier, seed), check_competition(tier, seed, open_findings),
           check(prohibited_models(), 3, tier, seed, {}, 'C01.prohibited_particles', 1)]
    from . import C01_xsd11
    return out + C01_xsd11.run(tier, seed, open_findings)


def replay(check_name, case):
    if case.get('xsd11'):
        from . import C01_xsd11
        return C01_xsd11.replay(check_name, case)
    if case.get('groupref'):
        sp = case['spec']; g = _tuplify(sp[1]); spec = (sp[0], g, tuple(sp[2])) + ((tuple(sp[3]),) if len(sp) > 3 else ())
        r = ref_eval((spec, case['version'])); return dict(ok=not r, observed=r, required='is_valid(doc(w)) <=> w in L(m)')
    if case.get('competition'):
        r = eval_competition(_tuplify(case['model'])); return dict(ok=not (r and r['mismatches']), observed=r and r['mismatches'][:8], required='is_valid(doc(w)) <=> w in L(m)')
    if case.get('subst'):
        k, leaves, o = case['model']; m = (k, [(n, tuple(oc)) for n, oc in leaves], tuple(o))
        r = sub_eval((m, case['version'])); return dict(ok=not r, observed=r, required='is_valid(doc(w)) <=> w in L(m)')
    if 'witness_model' in case:
        case = dict(model=case['witness_model'], version=case.get('version', '1.0'), wordset=2)
    m = _tuplify(case['model'])
    name, ver, built, det, mism, badloc = evaluate((m, case['version'], case.get('wordset', 2)))
    return dict(ok=not mism and not badloc, observed=dict(model=name, built=built, deterministic=det, mismatches=mism[:8], badloc=badloc[:8]),
                required='is_valid(doc(w)) <=> w in L(m)')


def _tuplify(m):
    if m[0] in ('e', 'w'): return (m[0], m[1], tuple(m[2]))
    return (m[0], [_tuplify(c) for c in m[1]], tuple(m[2]))
