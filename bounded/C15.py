"""C15 bounded run-time contract on the real schema builder (labelled bounded):

    XMLSchema10/11(strict) raises XMLSchemaModelError  <=>  not upa_ok(m, version)

upa_ok is the independent Glushkov position-automaton decision of bounded/cm.py (XSD 1.1: an element particle competing with
a wildcard is not a violation).  The leaves of these models are untyped; Element Declarations Consistent is decided on a separate family
(x:T1, y, x:T2 in three nestings, every pair of types) for the models whose attribution is unambiguous.
Deciding scope: cm.two_level_models() and cm.variant_models(), both classes; disagreements recorded on the unchanged tree
are listed one by one in baseline/C15_instances.json (two root causes, see known_findings.json).
"""
import itertools
from . import cm
from .common import pmap, load_instances, result, part
from .C01 import _cls, _tuplify


def evaluate(args):
    m, ver = args
    import xmlschema
    det = cm.upa_ok(m, ver)
    try:
        _cls(ver)(cm.schema_text(m)); built = True
    except xmlschema.XMLSchemaModelError:
        built = False
    except xmlschema.XMLSchemaException as e:
        built = 'error:' + type(e).__name__
    status = None
    if built is True and not det: status = 'accepted-but-ambiguous'
    elif built is False and det: status = 'rejected-but-deterministic'
    elif built not in (True, False): status = str(built)
    return cm.show(m), ver, status


def check(models, tier, seed, known, label, k, open_findings):
    sel, exhaustive = part(models, tier, seed, k)
    jobs = [(m, ver) for m in sel for ver in ('1.0', '1.1')]
    res = pmap(evaluate, jobs)
    failures = []; nk = {}
    for (name, ver, status), (m, _) in zip(res, jobs):
        rec = known.get(ver, {}).get(name)
        if status is None: continue
        fid = {'accepted-but-ambiguous': 'C15-ambiguous-model-accepted', 'rejected-but-deterministic': 'C15-deterministic-model-rejected'}.get(status)
        if rec == status and fid in open_findings: nk[fid] = nk.get(fid, 0) + 1; continue
        failures.append(dict(case=dict(model=m, version=ver), model=name, observed=status,
                             required='model error <=> the model violates Unique Particle Attribution', baseline=rec))
    return result(label, f'{len(sel)} of {len(models)} models x 2 schema classes', len(jobs), failures, exhaustive=exhaustive, known=nk,
                  samples=[dict(model=cm.show(sel[0]), deterministic=cm.upa_ok(sel[0]))] if sel else [])


# ---------------------------------------------------------------- Element Declarations Consistent
def edc_models():
    """three leaves x:T1, y, x:T2 in three nestings; K, K2 in {seq, cho}; occurrences in OCC[:4]; T1, T2 in {string, int}"""
    import itertools
    occ = cm.OCC[:4] + [(2, 2)]
    for k in ('seq', 'cho'):
        for o1, o2, o3 in itertools.product(occ, repeat=3):
            yield ('flat', k, None, (o1, o2, o3), None)
            for k2 in ('seq', 'cho'):
                for o4 in occ[:4]:
                    yield ('right', k, k2, (o1, o2, o3), o4); yield ('left', k, k2, (o1, o2, o3), o4)


def edc_struct(shape, k, k2, occs, o4, order='xyx'):
    x1, y, x2 = ('e', 'a', occs[0]), ('e', 'b', occs[1]), ('e', 'a', occs[2])
    if shape == 'flat': return (k, [x1, y, x2], (1, 1))
    if shape == 'right': return (k, [x1, (k2, [y, x2], o4)], (1, 1))
    return (k, [(k2, [x1, y], o4), x2], (1, 1))


def edc_text(m, t1, t2):
    types = iter([t1, t2])
    def occ(o): return ('' if o[0] == 1 else f' minOccurs="{o[0]}"') + ('' if o[1] == 1 else ' maxOccurs="%s"' % ('unbounded' if o[1] is None else o[1]))
    def x(p):
        if p[0] == 'e':
            t = next(types) if p[1] == 'a' else None
            if t and t.startswith('anon-'):      # an anonymous (inline) type: every occurrence is a type definition of its own
                return f'<xs:element name="{p[1]}"{occ(p[2])}><xs:simpleType><xs:restriction base="xs:{t[5:]}"/></xs:simpleType></xs:element>'
            return f'<xs:element name="{p[1]}"{occ(p[2])}%s/>' % (f' type="xs:{t}"' if t else '')
        return '<xs:%s%s>%s</xs:%s>' % ({'seq': 'sequence', 'cho': 'choice'}[p[0]], occ(p[2]), ''.join(x(c) for c in p[1]), {'seq': 'sequence', 'cho': 'choice'}[p[0]])
    return f'<xs:schema {cm.XS}><xs:element name="r"><xs:complexType>{x(m)}</xs:complexType></xs:element></xs:schema>'


def edc_eval(args):
    spec, ver = args
    import xmlschema
    m = edc_struct(*spec)
    if not cm.upa_ok(m, '1.0'): return None          # attribution itself is ambiguous: judged by the UPA checks above
    out = {}
    for t1, t2 in (('string', 'string'), ('int', 'int'), ('string', 'int'), ('int', 'string'), ('anon-int', 'anon-string'), ('anon-int', 'anon-int'), ('int', 'anon-int')):
        try: _cls(ver)(edc_text(m, t1, t2)); out[t1, t2] = 'accepted'
        except xmlschema.XMLSchemaModelError: out[t1, t2] = 'model-error'
        except xmlschema.XMLSchemaException as e: out[t1, t2] = 'error:' + type(e).__name__
    bad = []
    if out['int', 'int'] != out['string', 'string']: bad.append(f"same-typed pair: string/string {out['string', 'string']} but int/int {out['int', 'int']}")
    for k in (('string', 'int'), ('int', 'string'), ('anon-int', 'anon-string'), ('anon-int', 'anon-int'), ('int', 'anon-int')):
        if out[k] != 'model-error': bad.append(f'{k[0]}/{k[1]}: {out[k]} (two same-named elements with different types)')
    return dict(spec=spec, ver=ver, model=cm.show(m), bad=bad) if bad else False


def check_edc(tier, seed):
    sel, exhaustive = part(list(edc_models()), tier, seed, 3)
    jobs = [(sp, ver) for sp in sel for ver in ('1.0', '1.1')]
    res = pmap(edc_eval, jobs)
    fails = [dict(case=dict(spec=r['spec'], version=r['ver']), model=r['model'], observed=r['bad'], required='same-named elements with different types in one content model: model error; the same model with equal types: same outcome whatever the type')
             for r in res if r]
    decided = sum(1 for r in res if r is not None)
    return result('C15.element_declarations_consistent', f'{len(sel)} of {len(list(edc_models()))} three-leaf models (x:T1, y, x:T2; flat / left- / right-nested) x 7 type pairs (named and anonymous types) x 2 schema classes', len(jobs) * 7, fails,
                  exhaustive=exhaustive, samples=[dict(model=cm.show(edc_struct(*sel[0])))], distinct=decided, notes=f'{decided} (model, class) pairs have unambiguous attribution and are decided')


# ---------------------------------------------------------------- XSD 1.1: a local element against the global element that a wildcard of the same model resolves
def eval_wild_edc(args):
    """XSD 1.1: an element particle and a wildcard never conflict (the declaration takes the child), and Element Declarations Consistent asks of the global declaration that the
    wildcard would resolve for the same name only an equivalent TYPE TABLE - not the same type: every model of the family is deterministic and consistent, so it is accepted.
    (Declarations with type alternatives are left out: what 'equivalent type tables' demands is not decided here.)"""
    shape, pc, gtype, order, alts = args
    import xmlschema
    alt = lambda t: f'<xs:alternative test="@k=\'1\'" type="{t}"/>' if alts else ''
    glob = f'<xs:element name="a" type="{gtype}">{alt("xs:byte" if alts == "different" else "xs:short")}</xs:element>'
    el = {'a1': f'<xs:element name="a" type="xs:int">{alt("xs:short")}</xs:element>', 'a?': f'<xs:element name="a" type="xs:int" minOccurs="0">{alt("xs:short")}</xs:element>'}[shape[0]]
    wc = {'any?': f'<xs:any processContents="{pc}" minOccurs="0"/>', 'any*': f'<xs:any processContents="{pc}" minOccurs="0" maxOccurs="unbounded"/>', 'any1': f'<xs:any processContents="{pc}"/>'}[shape[1]]
    kids = el + wc if order == 'element-first' else wc + el
    body = f'<xs:choice>{kids}</xs:choice>' if shape[2] == 'cho' else f'<xs:sequence>{kids}</xs:sequence>'
    xsd = f'<xs:schema {cm.XS}>{glob}<xs:element name="r"><xs:complexType>{body}</xs:complexType></xs:element></xs:schema>'
    try: xmlschema.XMLSchema11(xsd); got = 'accepted'
    except xmlschema.XMLSchemaModelError as e: got = 'model-error: ' + str(e).split('\n')[0][:100]
    except xmlschema.XMLSchemaException as e: got = 'other: ' + type(e).__name__ + ' ' + str(e)[:80]
    exp_error = alts == 'different' and pc != 'skip'
    ok = got.startswith('model-error') if exp_error else got == 'accepted'
    return None if ok else dict(args=list(args), got=got, expected='model error' if exp_error else 'accepted')


def eval_subst_edc(args):
    """a model that refers to the head H of a substitution group contains the member M implicitly: a local element named M must have the type of the global M (not the head's,
    not an unrelated one) - Element Declarations Consistent, both versions, every arrangement of the two particles"""
    ver, shape, t, member_t = args
    import xmlschema
    loc = f'<xs:element name="M" type="{t}"/>'; ref = '<xs:element ref="H"/>'
    body = {'seq': f'<xs:sequence>{ref}{loc}</xs:sequence>', 'rev': f'<xs:sequence>{loc}{ref}</xs:sequence>', 'nest': f'<xs:sequence>{ref}<xs:sequence>{loc}</xs:sequence></xs:sequence>',
            'cho-seq': f'<xs:sequence><xs:choice>{ref}<xs:element name="z"/></xs:choice>{loc}</xs:sequence>', 'opt': f'<xs:sequence>{ref}<xs:element name="M" type="{t}" minOccurs="0"/></xs:sequence>',
            'two-level': f'<xs:sequence><xs:element ref="H2"/>{loc}</xs:sequence>'}[shape]
    xsd = (f'<xs:schema {cm.XS}><xs:element name="H" type="xs:decimal"/><xs:element name="M" type="{member_t}" substitutionGroup="H"/>'
           f'<xs:element name="H2" type="xs:decimal"/><xs:element name="mid" type="xs:decimal" substitutionGroup="H2"/><xs:element name="M2" type="xs:integer" substitutionGroup="mid"/>'
           f'<xs:element name="r"><xs:complexType>{body.replace(chr(34) + "M" + chr(34), chr(34) + "M2" + chr(34)) if shape == "two-level" else body}</xs:complexType></xs:element></xs:schema>')
    try: _cls(ver)(xsd); got = 'accepted'
    except xmlschema.XMLSchemaModelError: got = 'model-error'
    except xmlschema.XMLSchemaException as e: got = 'other: ' + type(e).__name__ + ' ' + str(e)[:80]
    want = 'accepted' if t == ('xs:integer' if shape == 'two-level' else member_t) else 'model-error'
    return None if got == want else dict(args=list(args), got=got, expected=want)


def check_subst_edc():
    jobs = [(ver, sh, t, mt) for ver in ('1.0', '1.1') for sh in ('seq', 'rev', 'nest', 'cho-seq', 'opt', 'two-level') for t in ('xs:integer', 'xs:decimal', 'xs:string', 'xs:short') for mt in ('xs:integer', 'xs:decimal')]
    res = [eval_subst_edc(j) for j in jobs]
    return result('C15.edc_through_substitution_members', f'{len(jobs)} models: a reference to a substitution-group head next to a local element named like a member (one and two levels), 6 arrangements x 4 local types x 2 member types x 2 classes',
                  len(jobs), [dict(case=dict(subst_edc=r['args']), observed=r['got'], required=r['expected']) for r in res if r], exhaustive=True)


def eval_priority(args):
    """XSD 1.1: EVERY element particle that competes with a wildcard of its content model wins over it - the child is governed by the element declaration (typed xs:int here),
    whatever the position of the particle among the competitors and whatever processContents the wildcard has"""
    shape, pc, names = args
    import xmlschema
    els = ''.join(f'<xs:element name="{n}" type="xs:int" minOccurs="0"/>' for n in names)
    wc = f'<xs:any processContents="{pc}" minOccurs="0"/>'
    body = {'wild-first': f'<xs:sequence>{wc}{els}</xs:sequence>', 'wild-last': f'<xs:sequence>{els}{wc}</xs:sequence>',
            'choice': f'<xs:choice minOccurs="0" maxOccurs="unbounded"><xs:any processContents="{pc}"/>' + els.replace(' minOccurs="0"', '') + '</xs:choice>'}[shape]
    s = xmlschema.XMLSchema11(f'<xs:schema {cm.XS}><xs:element name="r"><xs:complexType>{body}</xs:complexType></xs:element></xs:schema>')
    bad = []
    for n in names:
        for v, ok in (('7', True), ('x', False)):
            doc = f'<r><{n}>{v}</{n}></r>'
            try: got = s.is_valid(doc); data = s.decode(doc, validation='lax')[0]
            except Exception as e: got = 'raised ' + type(e).__name__; data = None
            if got != ok: bad.append((doc, got, ok))
            elif ok and (not isinstance(data, dict) or data.get(n) not in (7, [7])): bad.append((doc, f'decoded {data!r}', f'{n}: 7 (an xs:int)'))
    return dict(args=list(args), bad=bad) if bad else None


def check_priority():
    jobs = [(sh, pc, names) for sh in ('wild-first', 'wild-last', 'choice') for pc in ('lax', 'strict', 'skip') for names in (('a',), ('a', 'b'), ('a', 'b', 'c'))]
    res = [eval_priority(j) for j in jobs]
    return result('C15.xsd11_element_priority_over_wildcard', f'{len(jobs)} XSD 1.1 models: one wildcard (lax / strict / skip) competing with 1-3 typed local elements (sequence with the wildcard first / last, repeating choice) x each element with a valid and an invalid value',
                  sum(2 * len(j[2]) for j in jobs), [dict(case=dict(priority=r['args']), observed=[list(b) for b in r['bad'][:3]], required='the child is governed by its element declaration') for r in res if r], exhaustive=True)


def check_wild_edc():
    jobs = [((e, w, k), pc, gt, order, alts) for e in ('a1', 'a?') for w in ('any?', 'any*', 'any1') for k in ('seq', 'cho') for pc in ('lax', 'strict', 'skip') for gt in ('xs:int', 'xs:string')
            for order in ('element-first', 'wildcard-first') for alts in ('',)]
    res = [eval_wild_edc(j) for j in jobs]
    fails = [dict(case=dict(wild_edc=r['args']), observed=r['got'], required=r['expected']) for r in res if r]
    return result('C15.xsd11_wildcard_and_local_element', f'{len(jobs)} XSD 1.1 models: a local element a and a wildcard that admits a (2 x 3 occurrence shapes, sequence / choice, both orders, 3 processContents) with a global a of the same or another type',
                  len(jobs), fails, exhaustive=True, samples=[dict(model='(a:int?, any-lax*)', global_a='xs:string')])


# ---------------------------------------------------------------- substitution-group heads as leaves
def subst_models():
    from .C01 import SUBST
    occ = cm.OCC[:4]
    for k in ('seq', 'cho'):
        for a, b in itertools.permutations(['h', 'n', 'k', 'z'], 2):
            for o1 in occ:
                for o2 in occ[:2]:
                    yield (k, [(a, o1), (b, o2)], (1, 1))
                    if o1 == (0, 1): yield (k, [(a, o1), ('z', (0, 1)), (b, o2)], (1, 1))


def subst_eval(args):
    m, ver = args
    import xmlschema
    from .C01 import SUBST, SUB_GLOBALS
    k, leaves, o = m
    tag = {'seq': 'sequence', 'cho': 'choice'}[k]
    body = f'<xs:{tag}{cm.occ_attr(o)}>' + ''.join(f'<xs:element ref="{n}"{cm.occ_attr(oc)}/>' for n, oc in leaves) + f'</xs:{tag}>'
    # a reference to an element stands for the choice of the elements that may substitute it; attribution is to the PARTICLE (the reference)
    SUB = dict(SUBST, k={'k'})
    det = cm.upa_ok((k, [('cho', [('e', c, (1, 1)) for c in sorted(SUB[n])], oc) if len(SUB[n]) > 1 else ('e', n, oc) for n, oc in leaves], o), ver, ) if True else None
    # within one reference the alternatives are one particle: a model whose only ambiguity is inside one expanded choice does not occur, the members are distinct names
    try: _cls(ver)(f'<xs:schema {cm.XS}><xs:element name="r"><xs:complexType>{body}</xs:complexType></xs:element>{SUB_GLOBALS}</xs:schema>'); built = True
    except xmlschema.XMLSchemaModelError: built = False
    except xmlschema.XMLSchemaException as e: built = 'error:' + type(e).__name__
    if built is True and not det: return dict(model=m, ver=ver, status='accepted-but-ambiguous')
    if built is False and det: return dict(model=m, ver=ver, status='rejected-but-deterministic')
    if built not in (True, False): return dict(model=m, ver=ver, status=str(built))
    return None


def check_subst(tier, seed):
    models = list(subst_models())
    jobs = [(m, ver) for m in models for ver in ('1.0', '1.1')]
    res = pmap(subst_eval, jobs)
    fails = [dict(case=dict(subst=True, model=r['model'], version=r['ver']), observed=r['status'], required='model error <=> two references can claim the same child (a head claims its substitutes)') for r in res if r]
    return result('C15.substitution_group_leaves', f'{len(models)} models over references to a head, a member with substitutes, a terminal member and an unrelated element (two and three particles) x 2 classes',
                  len(jobs), fails, exhaustive=True, samples=[dict(model=str(models[0]))])


PLACEMENTS = ('element-anonymous', 'global-type', 'local-in-global-type', 'local-in-named-group', 'local-in-group-of-group', 'extension-of-global-type',
              # the same unqualified local declarations in a schema document that has a target namespace, with and without that namespace declared as the DEFAULT namespace of
              # the document (an xmlns binding of the schema file: the names of the local elements stay in no namespace, the wildcards of these models do not name the target)
              'target-namespace', 'target-namespace-as-default')


def placement_schema(m, where):
    body = cm.xsd(m); XS_ = cm.XS
    if where.startswith('target-namespace'):
        return f'<xs:schema {XS_} targetNamespace="urn:tns"' + (' xmlns="urn:tns"' if where.endswith('default') else '') + f'><xs:element name="r"><xs:complexType>{body}</xs:complexType></xs:element></xs:schema>'
    if where == 'element-anonymous': return f'<xs:schema {XS_}><xs:element name="r"><xs:complexType>{body}</xs:complexType></xs:element></xs:schema>'
    if where == 'global-type': return f'<xs:schema {XS_}><xs:complexType name="T">{body}</xs:complexType><xs:element name="r" type="T"/></xs:schema>'
    inner = f'<xs:element name="inner"><xs:complexType>{body}</xs:complexType></xs:element>'
    if where == 'local-in-global-type': return f'<xs:schema {XS_}><xs:complexType name="T"><xs:sequence>{inner}</xs:sequence></xs:complexType><xs:element name="r" type="T"/></xs:schema>'
    if where == 'local-in-named-group':
        return f'<xs:schema {XS_}><xs:group name="G"><xs:sequence>{inner}</xs:sequence></xs:group><xs:element name="r"><xs:complexType><xs:group ref="G"/></xs:complexType></xs:element></xs:schema>'
    if where == 'local-in-group-of-group':
        return (f'<xs:schema {XS_}><xs:group name="G"><xs:sequence>{inner}</xs:sequence></xs:group><xs:group name="H"><xs:sequence><xs:group ref="G" minOccurs="0"/></xs:sequence></xs:group>'
                f'<xs:element name="r"><xs:complexType><xs:group ref="H"/></xs:complexType></xs:element></xs:schema>')
    return (f'<xs:schema {XS_}><xs:complexType name="B"><xs:sequence/></xs:complexType><xs:complexType name="T"><xs:complexContent><xs:extension base="B">{body}</xs:extension></xs:complexContent></xs:complexType>'
            f'<xs:element name="r" type="T"/></xs:schema>')


def eval_placement(args):
    """whether a content model is refused does not depend on where the complex type that holds it is declared"""
    m, ver = args
    import xmlschema
    out = {}
    for where in PLACEMENTS:
        try: _cls(ver)(placement_schema(m, where)); out[where] = 'accepted'
        except xmlschema.XMLSchemaModelError: out[where] = 'model-error'
        except xmlschema.XMLSchemaException as e: out[where] = 'other:' + type(e).__name__
    return dict(model=m, name=cm.show(m), ver=ver, outcomes=out) if len(set(out.values())) > 1 else None


def check_placement(tier, seed):
    import random as _r
    models = list(cm.variant_models()); _r.Random(seed).shuffle(models)
    sel = models[:(600 if tier == 'thorough' else 60)]
    jobs = [(m, ver) for m in sel for ver in ('1.0', '1.1')]
    res = pmap(eval_placement, jobs, chunk=2)
    fails = [dict(case=dict(placement=True, model=r['model'], version=r['ver']), model=r['name'], observed=r['outcomes'], required='the same verdict of the builder wherever the type is declared') for r in res if r]
    return result('C15.placement_independence', f'{len(sel)} seeded models x {len(PLACEMENTS)} places for the complex type that holds the model (anonymous type of a global element, global type, local element of a global type / of a named group / of a group referenced by a group, extension) x 2 classes',
                  len(jobs) * len(PLACEMENTS), fails, samples=[dict(model=cm.show(sel[0]))], distinct=len(jobs))


def check_blocked_subst():
    """block="substitution" on the HEAD of a substitution group takes its members out of what a reference to the head matches (the model with the head and a member side by
    side is then deterministic); the same attribute on a MEMBER says nothing about the group of its head (the model stays ambiguous).  Also blockDefault, and block with other values"""
    import xmlschema
    fails = []; n = 0
    for ver, hb, mb, bd, (shape, body) in itertools.product(('1.0', '1.1'), ('', 'substitution', 'extension', '#all', 'restriction substitution'), ('', 'substitution', '#all'), ('', 'substitution'), (
            ('choice(H|M)', '<xs:choice><xs:element ref="H"/><xs:element ref="M"/></xs:choice>'), ('choice(M|H)', '<xs:choice><xs:element ref="M"/><xs:element ref="H"/></xs:choice>'),
            ('seq(H?,M)', '<xs:sequence><xs:element ref="H" minOccurs="0"/><xs:element ref="M"/></xs:sequence>'), ('seq(H*,M2)', '<xs:sequence><xs:element ref="H" minOccurs="0" maxOccurs="unbounded"/><xs:element ref="M2"/></xs:sequence>'),
            ('seq(H,M)', '<xs:sequence><xs:element ref="H"/><xs:element ref="M"/></xs:sequence>'))):
        n += 1
        att = lambda v: f' block="{v}"' if v else ''
        xsd = (f'<xs:schema {cm.XS}' + (f' blockDefault="{bd}"' if bd else '') + f'><xs:element name="H" type="xs:decimal"{att(hb)}/><xs:element name="M" type="xs:decimal" substitutionGroup="H"{att(mb)}/>'
               f'<xs:element name="M2" type="xs:decimal" substitutionGroup="M"/><xs:element name="r"><xs:complexType>{body}</xs:complexType></xs:element></xs:schema>')
        head_blocks = 'substitution' in hb or hb == '#all' or (not hb and bd == 'substitution')
        # M2 substitutes M, M substitutes H: a reference to H claims M and M2 unless H blocks substitution (the block of M only stops M2 from standing for M - and through M for H)
        m_blocks = 'substitution' in mb or mb == '#all' or (not mb and bd == 'substitution')
        claims = set() if head_blocks else ({'M'} | (set() if m_blocks else {'M2'}))
        other = 'M2' if 'M2' in shape else 'M'
        ambiguous = shape != 'seq(H,M)' and other in claims
        try: _cls(ver)(xsd); got = 'accepted'
        except xmlschema.XMLSchemaModelError: got = 'model error'
        except xmlschema.XMLSchemaException as e: got = 'error:' + type(e).__name__ + ': ' + str(e)[:80]
        exp = 'model error' if ambiguous else 'accepted'
        if got != exp: fails.append(dict(case=dict(blocked_subst=[ver, hb, mb, bd, shape]), observed=got, required=exp))
    return result('C15.blocked_substitution_heads', '5 block values on the head x 3 on the member x blockDefault x 5 models with a reference to the head beside a reference to a (transitive) member x 2 classes', n, fails, exhaustive=True)


def run(tier, seed, open_findings):
    known = load_instances('C15_instances.json')
    return [check(list(cm.two_level_models()), tier, seed, known, 'C15.two_level_models', 4, open_findings),
            check(list(cm.two_level_models_rev()), tier, seed, known, 'C15.two_level_models_rev', 4, open_findings),
            check(list(cm.variant_models()), tier, seed, known, 'C15.variant_models', 1, open_findings), check_edc(tier, seed), check_subst(tier, seed), check_placement(tier, seed), check_wild_edc(), check_subst_edc(), check_priority(), check_blocked_subst()]


def replay(check_name, case):
    if case.get('wild_edc'):
        a = case['wild_edc']; r = eval_wild_edc((tuple(a[0]), a[1], a[2], a[3], a[4])); return dict(ok=r is None, observed=r and r['got'], required=r and r['expected'])
    if case.get('priority'):
        a = case['priority']; r = eval_priority((a[0], a[1], tuple(a[2]))); return dict(ok=r is None, observed=r and r['bad'][:2], required='the child is governed by its element declaration')
    if case.get('blocked_subst'):
        r = check_blocked_subst(); mine = [f for f in r['failures'] if list(f['case']['blocked_subst']) == list(case['blocked_subst'])]; return dict(ok=not mine, observed=mine[:1], required='model error <=> the head claims the member')
    if case.get('subst_edc'):
        r = eval_subst_edc(tuple(case['subst_edc'])); return dict(ok=r is None, observed=r and r['got'], required=r and r['expected'])
    if case.get('placement'):
        r = eval_placement((_tuplify(case['model']), case['version'])); return dict(ok=r is None, observed=r and r['outcomes'], required='same verdict in every place')
    if case.get('subst'):
        k, leaves, o = case['model']; r = subst_eval(((k, [(n, tuple(oc)) for n, oc in leaves], tuple(o)), case['version']))
        return dict(ok=r is None, observed=r, required='model error <=> not deterministic')
    if 'spec' in case:
        sp = case['spec']; r = edc_eval(((sp[0], sp[1], sp[2], tuple(tuple(o) for o in sp[3]), tuple(sp[4]) if sp[4] else None), case['version']))
        return dict(ok=not r, observed=r, required='different types: model error')
    if 'witness_model' in case: case = dict(model=case['witness_model'], version=case.get('version', '1.0'))
    name, ver, status = evaluate((_tuplify(case['model']), case['version']))
    return dict(ok=status is None, observed=dict(model=name, status=status), required='model error <=> not upa_ok(m)')
