"""C15 bounded run-time contract on the real schema builder (labelled bounded):

    XMLSchema10/11(strict) raises XMLSchemaModelError  <=>  not upa_ok(m, version)

upa_ok is the independent Glushkov position-automaton decision of bounded/cm.py (XSD 1.1: an element particle competing with
a wildcard is not a violation).  All leaves are untyped, so Element Declarations Consistent holds trivially in this scope.
Deciding scope: cm.two_level_models() and cm.variant_models(), both classes; disagreements recorded on the unchanged tree
are listed one by one in baseline/C15_instances.json (two root causes, see known_findings.json).
"""
from . import cm
from .common import pmap, load_instances, result, part
from .C01 import _cls, _tuplify


def evaluate(args):
    m, ver = args
    import xmlschema
    det = cm.upa_ok(m, ver)
    try:
        _cls(ver)(cm.schema_text(m)); built = True
    except xmlschema.XMLSchemaModelError:
        built = False
    except xmlschema.XMLSchemaException as e:
        built = 'error:' + type(e).__name__
    status = None
    if built is True and not det: status = 'accepted-but-ambiguous'
    elif built is False and det: status = 'rejected-but-deterministic'
    elif built not in (True, False): status = str(built)
    return cm.show(m), ver, status


def check(models, tier, seed, known, label, k, open_findings):
    sel, exhaustive = part(models, tier, seed, k)
    jobs = [(m, ver) for m in sel for ver in ('1.0', '1.1')]
    res = pmap(evaluate, jobs)
    failures = []; nk = {}
    for (name, ver, status), (m, _) in zip(res, jobs):
        rec = known.get(ver, {}).get(name)
        if status is None: continue
        fid = {'accepted-but-ambiguous': 'C15-ambiguous-model-accepted', 'rejected-but-deterministic': 'C15-deterministic-model-rejected'}.get(status)
        if rec == status and fid in open_findings: nk[fid] = nk.get(fid, 0) + 1; continue
        failures.append(dict(case=dict(model=m, version=ver), model=name, observed=status,
                             required='model error <=> the model violates Unique Particle Attribution', baseline=rec))
    return result(label, f'{len(sel)} of {len(models)} models x 2 schema classes', len(jobs), failures, exhaustive=exhaustive, known=nk,
                  samples=[dict(model=cm.show(sel[0]), deterministic=cm.upa_ok(sel[0]))] if sel else [])


def run(tier, seed, open_findings):
    known = load_instances('C15_instances.json')
    return [check(list(cm.two_level_models()), tier, seed, known, 'C15.two_level_models', 4, open_findings),
            check(list(cm.variant_models()), tier, seed, known, 'C15.variant_models', 1, open_findings)]


def replay(check_name, case):
    if 'witness_model' in case: case = dict(model=case['witness_model'], version=case.get('version', '1.0'))
    name, ver, status = evaluate((_tuplify(case['model']), case['version']))
    return dict(ok=status is None, observed=dict(model=name, status=status), required='model error <=> not upa_ok(m)')
