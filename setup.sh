#!/bin/bash
# Build the overlay interpreter used by every check (offline, from the local wheelhouse).
set -e
cd "$(dirname "$0")"
if [ ! -x .venv/bin/python ] || ! .venv/bin/python -c "import z3, cvc5, xmlschema, jsonschema" 2>/dev/null; then
  rm -rf .venv
  /venv/bin/python -m venv .venv
  PIP_NO_INDEX=1 .venv/bin/pip install -q --no-index --find-links /opt/veriftools/wheels z3-solver cvc5 icontract crosshair-tool jsonschema >/dev/null
  echo "import site; site.addsitedir('/venv/lib/python3.12/site-packages')" > .venv/lib/python3.12/site-packages/_venv.pth
fi
.venv/bin/python -c "import z3, cvc5, xmlschema, jsonschema; print('venv ok', z3.get_version_string(), xmlschema.__file__)"
